package engine

import (
	"flag"
	"fmt"
	"os"
	"path/filepath"
	"strings"
	"time"
)

const VerifDir = "/verif"

func Main(args []string) int {
	if len(args) == 0 {
		fmt.Fprintln(os.Stderr, "usage: cverif func|check|replay|selftest ...")
		return 2
	}
	if args[0] == "spawnd" {
		return SpawnServer()
	}
	StartSpawner()
	StartPool(16)
	defer StopPool()
	switch args[0] {
	case "func":
		return cmdFunc(args[1:])
	case "check":
		return cmdCheck(args[1:])
	case "replay":
		return cmdReplay(args[1:])
	case "known":
		return cmdKnown(args[1:])
	case "warmup":
		return cmdWarmup(args[1:])
	case "axioms":
		return cmdAxioms(args[1:])
	}
	fmt.Fprintln(os.Stderr, "unknown command", args[0])
	return 2
}

func repoDir() string {
	if d := os.Getenv("VERIF_REPO"); d != "" {
		return d
	}
	return "/repo"
}

// cmdFunc: debugging aid - verify the functions whose key contains the given substring
func cmdFunc(args []string) int {
	fs := flag.NewFlagSet("func", flag.ExitOnError)
	pkgs := fs.String("pkgs", "./interpreter", "package patterns")
	timeout := fs.Int("timeout", 20, "per-obligation timeout (s)")
	keep := fs.Bool("keep", false, "keep SMT files")
	verbose := fs.Bool("v", false, "verbose")
	genProp := fs.String("gen", "", "property whose generated overlay (harnesses) to include")
	fs.Parse(args)
	t0 := time.Now()
	var ovl map[string][]byte
	if *genProp != "" {
		var gerr error
		ovl, gerr = overlayFor(*genProp, repoDir())
		if gerr != nil {
			fmt.Fprintln(os.Stderr, "gen:", gerr)
			return 2
		}
	}
	cs, err := LoadContracts(repoDir(), filepath.Join(VerifDir, "contracts/schemas"), filepath.Join(VerifDir, "contracts/stdlib"), ovl)
	if err != nil {
		fmt.Fprintln(os.Stderr, "contracts:", err)
		return 2
	}
	p, err := LoadProgram(repoDir(), strings.Fields(*pkgs), ovl)
	if err != nil {
		fmt.Fprintln(os.Stderr, "load:", err)
		return 2
	}
	p.CS = cs
	if err := p.LoadConsts(); err != nil {
		fmt.Fprintln(os.Stderr, "consts:", err)
		return 2
	}
	cs.ExpandIfaceContracts(p)
	fmt.Printf("loaded in %.1fs, %d contracts\n", time.Since(t0).Seconds(), len(cs.Funcs))
	work := filepath.Join(VerifDir, ".work", fmt.Sprintf("func-%d", os.Getpid()))
	os.MkdirAll(work, 0o755)
	if !*keep {
		defer os.RemoveAll(work)
	}
	rc := 0
	for _, key := range cs.Order {
		c := cs.Funcs[key]
		match := false
		for _, a := range fs.Args() {
			if strings.Contains(key, a) {
				match = true
			}
		}
		if !match || c.Assumed || c.Iface || (c.Inline && len(c.Ensures) == 0 && len(c.Fails) == 0 && !c.NoFail) {
			continue
		}
		res := p.VerifyFunc(c)
		fmt.Printf("== %s: %d obligations, %d paths, rejected=%q\n", key, len(res.Obligations), res.Paths, res.Rejected)
		if res.Rejected != "" {
			rc = 1
		}
		if *verbose && res.Exec != nil {
			kinds := map[string]int{}
			for _, e := range res.Exec.Exits {
				if e.Panic == nil {
					kinds["return"]++
				} else {
					kinds["panic:"+e.Panic.Kind]++
				}
			}
			fmt.Printf("   exits: %v\n", kinds)
		}
		for _, o := range res.Obligations {
			ans := Solve(o.Query, o.Name, SolverCfg{Timeout: time.Duration(*timeout) * time.Second, WorkDir: work, Order: o.Order})
			ans = preferSmall(o, ans, CheckOpts{Timeout: time.Duration(*timeout) * time.Second}, work)
			status := "ok"
			if ans.Result == o.Expect {
				os.Remove(ans.File)
			} else {
				status = "FAIL"
				rc = 1
			}
			fmt.Printf("  %-4s %-40s expect=%s got=%s (%s %.2fs)\n", status, o.Short, o.Expect, ans.Result, ans.Solver, ans.TimeS)
			if status == "FAIL" || *verbose {
				if ans.Result == "sat" {
					for _, in := range o.Inputs {
						if v, ok := ans.Model[in]; ok {
							fmt.Printf("        %s = %s\n", in, v)
						}
					}
				} else if ans.Result != "unsat" {
					fmt.Printf("        %s\n", strings.TrimSpace(ans.Raw))
				}
			}
		}
	}
	return rc
}
