package engine

import (
	"bufio"
	"bytes"
	"context"
	"encoding/json"
	"io"
	"os"
	"os/exec"
	"sync"
	"time"
)

// Forking from the verifier process is slow once the SSA program is loaded (hundreds of MB of page
// tables, serialised by the runtime's fork lock: ~35 ms per solver process, measured). A small helper
// process, started before anything is loaded, launches the solver processes instead.

type spawnReq struct {
	ID      int      `json:"id"`
	Argv    []string `json:"argv,omitempty"`
	Timeout float64  `json:"timeout,omitempty"`
	Cancel  bool     `json:"cancel,omitempty"`
}

type spawnResp struct {
	ID      int     `json:"id"`
	Out     string  `json:"out"`
	Elapsed float64 `json:"elapsed"`
	Killed  bool    `json:"killed"`
}

type spawnClient struct {
	mu      sync.Mutex
	w       io.Writer
	pending map[int]chan spawnResp
	next    int
	cmd     *exec.Cmd
}

var spawner *spawnClient

func StartSpawner() {
	if spawner != nil {
		return
	}
	self, err := os.Executable()
	if err != nil {
		return
	}
	cmd := exec.Command(self, "spawnd")
	in, err := cmd.StdinPipe()
	if err != nil {
		return
	}
	out, err := cmd.StdoutPipe()
	if err != nil {
		return
	}
	cmd.Stderr = os.Stderr
	if err := cmd.Start(); err != nil {
		return
	}
	sc := &spawnClient{w: in, pending: map[int]chan spawnResp{}, cmd: cmd}
	go func() {
		rd := bufio.NewReaderSize(out, 1<<20)
		dec := json.NewDecoder(rd)
		for {
			var r spawnResp
			if err := dec.Decode(&r); err != nil {
				return
			}
			sc.mu.Lock()
			ch := sc.pending[r.ID]
			delete(sc.pending, r.ID)
			sc.mu.Unlock()
			if ch != nil {
				ch <- r
			}
		}
	}()
	spawner = sc
}

func (sc *spawnClient) run(ctx context.Context, argv []string, timeout time.Duration) (string, float64, bool) {
	ch := make(chan spawnResp, 1)
	sc.mu.Lock()
	sc.next++
	id := sc.next
	sc.pending[id] = ch
	data, _ := json.Marshal(spawnReq{ID: id, Argv: argv, Timeout: timeout.Seconds()})
	sc.w.Write(append(data, '\n'))
	sc.mu.Unlock()
	select {
	case r := <-ch:
		return r.Out, r.Elapsed, r.Killed
	case <-ctx.Done():
		sc.mu.Lock()
		data, _ := json.Marshal(spawnReq{ID: id, Cancel: true})
		sc.w.Write(append(data, '\n'))
		sc.mu.Unlock()
		r := <-ch
		return r.Out, r.Elapsed, true
	}
}

// SpawnServer is the helper process' main loop.
func SpawnServer() int {
	dec := json.NewDecoder(bufio.NewReader(os.Stdin))
	var mu sync.Mutex
	enc := json.NewEncoder(os.Stdout)
	cancels := map[int]context.CancelFunc{}
	var cmu sync.Mutex
	for {
		var req spawnReq
		if err := dec.Decode(&req); err != nil {
			return 0
		}
		if req.Cancel {
			cmu.Lock()
			if c, ok := cancels[req.ID]; ok {
				c()
			}
			cmu.Unlock()
			continue
		}
		ctx, cancel := context.WithTimeout(context.Background(), time.Duration(req.Timeout*float64(time.Second)))
		cmu.Lock()
		cancels[req.ID] = cancel
		cmu.Unlock()
		go func(req spawnReq) {
			defer cancel()
			cmd := exec.CommandContext(ctx, req.Argv[0], req.Argv[1:]...)
			var out bytes.Buffer
			cmd.Stdout = &out
			cmd.Stderr = &out
			t0 := time.Now()
			_ = cmd.Run()
			resp := spawnResp{ID: req.ID, Out: out.String(), Elapsed: time.Since(t0).Seconds(), Killed: ctx.Err() != nil}
			cmu.Lock()
			delete(cancels, req.ID)
			cmu.Unlock()
			mu.Lock()
			enc.Encode(resp)
			mu.Unlock()
		}(req)
	}
}
