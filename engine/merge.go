package engine

import (
	"go/token"
	"go/types"

	"golang.org/x/tools/go/ssa"
)

// If-conversion of side-effect-free regions. Short-circuit conditions (a && b || c) and small pure
// diamonds would otherwise multiply the number of paths by 2-4 per loop iteration (LEB128's signed
// encoder: 4^10 paths). A region between an `If` and its immediate post-dominator that contains only
// pure scalar instructions is evaluated once, with the join's phis turned into ite terms.

func (ex *Exec) ipdoms(fn *ssa.Function) map[*ssa.BasicBlock]*ssa.BasicBlock {
	if ex.pdomCache == nil {
		ex.pdomCache = map[*ssa.Function]map[*ssa.BasicBlock]*ssa.BasicBlock{}
	}
	if m, ok := ex.pdomCache[fn]; ok {
		return m
	}
	n := len(fn.Blocks)
	// post-dominator sets by iterative dataflow (CFGs here are small)
	all := make([]bool, n)
	for i := range all {
		all[i] = true
	}
	pd := make([][]bool, n)
	exits := map[int]bool{}
	for i, b := range fn.Blocks {
		if len(b.Succs) == 0 {
			exits[i] = true
			pd[i] = make([]bool, n)
			pd[i][i] = true
		} else {
			pd[i] = append([]bool{}, all...)
		}
	}
	changed := true
	for changed {
		changed = false
		for i := n - 1; i >= 0; i-- {
			b := fn.Blocks[i]
			if exits[i] {
				continue
			}
			nw := append([]bool{}, all...)
			for _, s := range b.Succs {
				for k := 0; k < n; k++ {
					nw[k] = nw[k] && pd[s.Index][k]
				}
			}
			nw[i] = true
			for k := 0; k < n; k++ {
				if nw[k] != pd[i][k] {
					changed = true
				}
			}
			pd[i] = nw
		}
	}
	m := map[*ssa.BasicBlock]*ssa.BasicBlock{}
	for i, b := range fn.Blocks {
		// immediate post-dominator: the strict post-dominator that is post-dominated by all other strict post-dominators
		var best *ssa.BasicBlock
		for k := 0; k < n; k++ {
			if k == i || !pd[i][k] {
				continue
			}
			ok := true
			for j := 0; j < n; j++ {
				if j == i || j == k || !pd[i][j] {
					continue
				}
				if !pd[k][j] {
					ok = false
					break
				}
			}
			if ok {
				best = fn.Blocks[k]
				break
			}
		}
		m[b] = best
	}
	ex.pdomCache[fn] = m
	return m
}

func pureInstr(ins ssa.Instruction) bool {
	switch x := ins.(type) {
	case *ssa.BinOp:
		switch x.Op {
		case token.QUO, token.REM:
			return false
		case token.SHL, token.SHR:
			_, signed, _ := intInfo(x.Y.Type())
			return !signed
		}
		if _, _, ok := intInfo(x.X.Type()); ok {
			return true
		}
		return isBool(x.X.Type())
	case *ssa.UnOp:
		if x.Op == token.MUL {
			// load: only from a local cell (cannot fault)
			_, ok := x.X.(*ssa.Alloc)
			if !ok {
				_, ok = x.X.(*ssa.FreeVar)
			}
			if !ok {
				return false
			}
			_, _, isInt := intInfo(x.Type())
			return isInt || isBool(x.Type())
		}
		return x.Op == token.NOT || x.Op == token.SUB || x.Op == token.XOR
	case *ssa.Convert:
		_, _, a := intInfo(x.X.Type())
		_, _, b := intInfo(x.Type())
		return a && b
	case *ssa.ChangeType:
		_, _, a := intInfo(x.Type())
		return a || isBool(x.Type())
	case *ssa.Phi:
		_, _, a := intInfo(x.Type())
		return a || isBool(x.Type())
	case *ssa.DebugRef, *ssa.If, *ssa.Jump:
		return true
	}
	return false
}

// tryMerge: called at an If instruction in fr.Block. Returns true when the region up to the join was
// evaluated without forking and the frame now stands in the join block after its phis.
func (ex *Exec) tryMerge(st *State, fr *Frame, cond *Term) bool {
	fn := fr.Fn
	B := fr.Block
	J := ex.ipdoms(fn)[B]
	if J == nil {
		return false
	}
	li := ex.loops(fn)
	if _, isHdr := li.headers[J.Index]; isHdr {
		return false
	}
	// collect the region: blocks reachable from B's successors without passing J
	region := map[*ssa.BasicBlock]bool{}
	var order []*ssa.BasicBlock
	var visit func(b *ssa.BasicBlock) bool
	visit = func(b *ssa.BasicBlock) bool {
		if b == J || region[b] {
			return true
		}
		if b == B || len(region) > 16 {
			return false
		}
		if _, isHdr := li.headers[b.Index]; isHdr {
			return false
		}
		region[b] = true
		for _, ins := range b.Instrs {
			if !pureInstr(ins) {
				return false
			}
		}
		for _, s := range b.Succs {
			if !visit(s) {
				return false
			}
		}
		order = append(order, b)
		return true
	}
	for _, s := range B.Succs {
		if !visit(s) {
			return false
		}
	}
	// J's preds must all be B or region blocks; J's phis must be scalar
	for _, p := range J.Preds {
		if p != B && !region[p] {
			return false
		}
	}
	for _, ins := range J.Instrs {
		phi, ok := ins.(*ssa.Phi)
		if !ok {
			break
		}
		if _, _, isInt := intInfo(phi.Type()); !isInt && !isBool(phi.Type()) {
			return false
		}
	}
	// reverse post-order = topological order (region is acyclic: no loop headers)
	for i, j := 0, len(order)-1; i < j; i, j = i+1, j-1 {
		order[i], order[j] = order[j], order[i]
	}
	type edge struct{ from, to *ssa.BasicBlock }
	eg := map[edge]*Term{}
	eg[edge{B, B.Succs[0]}] = cond
	eg[edge{B, B.Succs[1]}] = Not(cond)
	if B.Succs[0] == B.Succs[1] {
		eg[edge{B, B.Succs[0]}] = True
	}
	guard := map[*ssa.BasicBlock]*Term{}
	phiVal := func(b *ssa.BasicBlock, phi *ssa.Phi) (Val, bool) {
		var cur *Term
		first := true
		for i, p := range b.Preds {
			g, ok := eg[edge{p, b}]
			if !ok {
				continue
			}
			v, ok := ex.val(fr, phi.Edges[i], st).(Scalar)
			if !ok {
				return nil, false
			}
			if first {
				cur = v.T
				first = false
			} else {
				cur = Ite(g, v.T, cur)
			}
		}
		if cur == nil {
			return nil, false
		}
		return Scalar{ex.def("m"+phi.Name(), cur)}, true
	}
	for _, b := range order {
		var gs []*Term
		for _, p := range b.Preds {
			if g, ok := eg[edge{p, b}]; ok {
				gs = append(gs, g)
			}
		}
		guard[b] = ex.def("g", Or(gs...))
		for _, ins := range b.Instrs {
			switch x := ins.(type) {
			case *ssa.Phi:
				v, ok := phiVal(b, x)
				if !ok {
					return false
				}
				fr.Vals[x] = v
			case *ssa.BinOp:
				fr.Vals[x] = ex.binop(st, fr, x)
			case *ssa.UnOp:
				fr.Vals[x] = ex.unop(st, fr, x)
			case *ssa.Convert:
				fr.Vals[x] = ex.convert(st, ex.val(fr, x.X, st), x.X.Type(), x.Type())
			case *ssa.ChangeType:
				fr.Vals[x] = ex.val(fr, x.X, st)
			case *ssa.DebugRef:
			case *ssa.If:
				c := ex.val(fr, x.Cond, st).(Scalar).T
				eg[edge{b, b.Succs[0]}] = And(guard[b], c)
				eg[edge{b, b.Succs[1]}] = And(guard[b], Not(c))
			case *ssa.Jump:
				eg[edge{b, b.Succs[0]}] = guard[b]
			}
		}
	}
	// join
	var vals []Val
	nphi := 0
	for _, ins := range J.Instrs {
		phi, ok := ins.(*ssa.Phi)
		if !ok {
			break
		}
		v, ok := phiVal(J, phi)
		if !ok {
			return false
		}
		vals = append(vals, v)
		nphi++
	}
	for i := 0; i < nphi; i++ {
		phi := J.Instrs[i].(*ssa.Phi)
		fr.Vals[phi] = vals[i]
		if phi.Comment != "" {
			fr.Names[phi.Comment] = nameRef{V: vals[i], Typ: phi.Type()}
		}
	}
	fr.Pred = B
	fr.Block = J
	fr.Idx = nphi
	_ = types.Typ
	return true
}
