package engine

import (
	"fmt"
	"go/ast"
	"go/token"
	"go/types"
	"math/big"
	"strconv"
	"strings"
)

// UConst is an untyped integer constant in a spec expression.
type UConst struct{ V *big.Int }

func (UConst) isVal() {}

// KindV is a type name used as a value in specs (kind(x) == Int8Value)
type KindV struct{ T types.Type }

func (KindV) isVal() {}

type SpecEnv struct {
	ex       *Exec
	st       *State
	old      *State
	vars     map[string]Val
	vtypes   map[string]types.Type
	pkg      *types.Package
	contract *Contract
	assuming bool   // evaluating a callee's contract at a call site (ensures are assumed)
	fr       *Frame // loop invariants / asserts: access to source-level names
	loopOld  *State // loop invariants: the state in which the loop was entered (loopentry(e))
	depth    int
}

type specErr struct{ msg string }

func (ev *SpecEnv) fail(format string, a ...any) {
	panic(rejectErr{"spec: " + fmt.Sprintf(format, a...)})
}

func (ev *SpecEnv) bindLets(c *Contract, post bool) {
	for _, l := range c.Lets {
		if l.Post != post {
			continue
		}
		v, t := ev.eval(l.Expr)
		ev.vars[l.Name] = v
		if ev.vtypes == nil {
			ev.vtypes = map[string]types.Type{}
		}
		ev.vtypes[l.Name] = t
	}
}

func (ev *SpecEnv) termBool(e ast.Expr) *Term {
	v, _ := ev.eval(e)
	s, ok := v.(Scalar)
	if !ok || s.T.S.K != SBool {
		ev.fail("expected boolean, got %s in %s", valString(v), exprString(e))
	}
	return s.T
}

func exprString(e ast.Expr) string {
	return types.ExprString(e)
}

// coerce an untyped constant to the sort of other
func (ev *SpecEnv) coerce(v Val, like Val) Val {
	u, ok := v.(UConst)
	if !ok {
		return v
	}
	if l, ok := like.(Scalar); ok && l.T.S.K == SBV {
		return Scalar{BVC(u.V, l.T.S.W)}
	}
	if ev.ex.Mode == ModeBV {
		if _, ok := like.(UConst); ok {
			return v
		}
		// default: 64-bit
		if l, ok := like.(Scalar); ok && l.T.S.K == SInt {
			return Scalar{IntBig(u.V)}
		}
		return Scalar{BVC(u.V, 64)}
	}
	return Scalar{IntBig(u.V)}
}

func (ev *SpecEnv) scalar(v Val, e ast.Expr) *Term {
	switch x := v.(type) {
	case Scalar:
		return x.T
	case UConst:
		if ev.ex.Mode == ModeBV {
			return BVC(x.V, 64)
		}
		return IntBig(x.V)
	case PtrV:
		if x.K == PBig || x.K == POpaque {
			return x.Ref
		}
		if x.K == PNil {
			return IntC(0)
		}
	case KindV:
		return IntC(int64(ev.ex.P.TypeTag(x.T)))
	case OpaqueV:
		return x.Id
	case StringV:
		return x.Id
	}
	ev.fail("expected scalar, got %s in %s", valString(v), exprString(e))
	return nil
}

func (ev *SpecEnv) heapState(useOld bool) *State {
	if useOld && ev.old != nil {
		return ev.old
	}
	return ev.st
}

func (ev *SpecEnv) eval(e ast.Expr) (Val, types.Type) {
	switch x := e.(type) {
	case *ast.ParenExpr:
		return ev.eval(x.X)
	case *ast.BasicLit:
		switch x.Kind {
		case token.INT:
			v, ok := new(big.Int).SetString(strings.ReplaceAll(x.Value, "_", ""), 0)
			if !ok {
				ev.fail("bad int literal %s", x.Value)
			}
			return UConst{v}, nil
		case token.STRING:
			s, _ := strconv.Unquote(x.Value)
			return StringV{Id: IntC(int64(strHash(s))), Len: ev.ex.idxConst(int64(len(s))), Lit: &s}, nil
		}
		ev.fail("unsupported literal %s", x.Value)
	case *ast.Ident:
		return ev.ident(x.Name)
	case *ast.UnaryExpr:
		v, t := ev.eval(x.X)
		switch x.Op {
		case token.NOT:
			return Scalar{Not(ev.scalar(v, x.X))}, t
		case token.SUB:
			if u, ok := v.(UConst); ok {
				return UConst{new(big.Int).Neg(u.V)}, nil
			}
			s := ev.scalar(v, x.X)
			if s.S.K == SBV {
				return Scalar{App("bvneg", s.S, s)}, t
			}
			return Scalar{INeg(s)}, t
		case token.ADD:
			return v, t
		}
		ev.fail("unsupported unary %s", x.Op)
	case *ast.BinaryExpr:
		return ev.binary(x)
	case *ast.CallExpr:
		return ev.callExpr(x)
	case *ast.SelectorExpr:
		// pkg.Name (type or global) or value.field
		if id, ok := x.X.(*ast.Ident); ok {
			if _, isVar := ev.lookupVar(id.Name); !isVar {
				if t := ev.ex.P.LookupType(id.Name+"."+x.Sel.Name, ev.pkg); t != nil {
					return KindV{t}, nil
				}
				if v, t, ok := ev.globalValue(id.Name, x.Sel.Name); ok {
					return v, t
				}
				// a package-level variable of the current package followed by a field (Int8Type.maxInt)
				if ev.pkg != nil && ev.pkg.Scope().Lookup(id.Name) != nil {
					if gv, gt, ok := ev.globalValue(ev.pkg.Name(), id.Name); ok {
						return ev.field(gv, gt, x.Sel.Name, e)
					}
				}
				ev.fail("unknown qualified name %s.%s", id.Name, x.Sel.Name)
			}
		}
		v, t := ev.eval(x.X)
		return ev.field(v, t, x.Sel.Name, e)
	case *ast.TypeAssertExpr:
		v, _ := ev.eval(x.X)
		tn := exprString(x.Type)
		t := ev.ex.P.LookupType(tn, ev.pkg)
		if t == nil {
			ev.fail("unknown type %s", tn)
		}
		iv, ok := v.(IfaceV)
		if !ok {
			// already concrete (e.g. receiver): identity if types agree
			return v, t
		}
		if iv.Conc != nil {
			if !types.Identical(iv.Conc, t) {
				// projection of the wrong type: arbitrary value (guarded by kind tests in specs)
				return ev.ex.zeroVal(ev.st, t), t
			}
			return iv.Payload, t
		}
		if iv.Sym == nil {
			return ev.ex.zeroVal(ev.st, t), t
		}
		return ev.ex.payload(ev.st, iv, t), t
	case *ast.IndexExpr:
		v, t := ev.eval(x.X)
		iv, it := ev.eval(x.Index)
		idx := ev.scalar(ev.coerceIdx(iv), x.Index)
		_ = it
		switch s := v.(type) {
		case SliceV:
			if s.Region == nil {
				// reading a nil slice in a spec: an arbitrary value (such reads are guarded by the clause)
				if es, scalar := ev.ex.elemSort(s.Elem); scalar {
					return Scalar{ev.ex.fresh("nilread", es)}, s.Elem
				}
				save := ev.ex.Inputs
				ev.ex.resultMode = true
				nv := ev.ex.symVal(ev.st, fmt.Sprintf("nilread_%d", ev.ex.nfreshNext()), s.Elem, 1)
				ev.ex.resultMode = false
				ev.ex.Inputs = save
				return nv, s.Elem
			}
			var et types.Type
			if t != nil {
				if st, ok := t.Underlying().(*types.Slice); ok {
					et = st.Elem()
				}
			}
			if et == nil {
				et = s.Elem
			}
			if len(s.Region.Sub) > 0 {
				return ev.ex.regionLoad(ev.st, s.Region, ev.ex.idxAdd(s.Off, idx), nil), et
			}
			mem := ev.heapMem(s.Region)
			return ev.ex.elemVal(s.Elem, Select(mem, ev.ex.idxAdd(s.Off, idx))), et
		case ArrayV:
			return ev.ex.elemVal(s.Typ.Elem(), Select(ev.heapMem(s.Region), idx)), s.Typ.Elem()
		}
		ev.fail("index of %s", valString(v))
	case *ast.StarExpr:
		v, t := ev.eval(x.X)
		var et types.Type
		if t != nil {
			if p, ok := t.Underlying().(*types.Pointer); ok {
				et = p.Elem()
			}
		}
		return ev.ex.load(ev.st, v, "spec"), et
	}
	ev.fail("unsupported spec expression %s (%T)", exprString(e), e)
	return nil, nil
}

func (ev *SpecEnv) heapMem(r *Region) *Term {
	m := ev.st.Mem[r]
	if m == nil {
		ev.fail("unknown region %s", r.Name)
	}
	return m
}

func (ev *SpecEnv) coerceIdx(v Val) Val {
	if u, ok := v.(UConst); ok {
		return Scalar{ev.ex.idxConst(u.V.Int64())}
	}
	return v
}

func (ev *SpecEnv) lookupVar(name string) (Val, bool) {
	if v, ok := ev.vars[name]; ok {
		return v, true
	}
	if ev.fr != nil {
		if nr, ok := ev.fr.Names[name]; ok {
			_ = nr
			return nil, true
		}
	}
	return nil, false
}

func (ev *SpecEnv) ident(name string) (Val, types.Type) {
	switch name {
	case "true":
		return Scalar{True}, types.Typ[types.Bool]
	case "false":
		return Scalar{False}, types.Typ[types.Bool]
	case "nil":
		return PtrV{K: PNil}, nil
	}
	if v, ok := ev.vars[name]; ok {
		var t types.Type
		if ev.vtypes != nil {
			t = ev.vtypes[name]
		}
		return v, t
	}
	if ev.fr != nil {
		nr, ok := ev.fr.Names[name]
		if !ok && strings.Contains(name, "_") {
			// compiler-generated names contain a dot (rangeint.iter): written with an underscore in specs
			nr, ok = ev.fr.Names[strings.Replace(name, "_", ".", 1)]
		}
		if ok {
			if nr.IsAddr {
				return ev.ex.load(ev.st, nr.V, "spec"), nr.Typ
			}
			return nr.V, nr.Typ
		}
		// a named result that no instruction ever assigns (every return states its value explicitly): it keeps
		// its zero value throughout
		if res := ev.fr.Fn.Signature.Results(); res != nil {
			for i := 0; i < res.Len(); i++ {
				if res.At(i).Name() == name && !assignsLocal(ev.fr.Fn, name) {
					return ev.ex.zeroVal(ev.st, res.At(i).Type()), res.At(i).Type()
				}
			}
		}
	}
	if t := ev.ex.P.LookupType(name, ev.pkg); t != nil {
		return KindV{t}, nil
	}
	if ev.pkg != nil {
		if v, t, ok := ev.globalValue(ev.pkg.Path(), name); ok {
			return v, t
		}
	}
	ev.fail("unknown identifier %s", name)
	return nil, nil
}

// globalValue resolves pkg.Name to a package-level const or var of the loaded program.
func (ev *SpecEnv) globalValue(pkg, name string) (Val, types.Type, bool) {
	for _, sp := range ev.ex.P.Prog.AllPackages() {
		if sp.Pkg.Path() != pkg && sp.Pkg.Name() != pkg {
			continue
		}
		o := sp.Pkg.Scope().Lookup(name)
		if o == nil {
			continue
		}
		switch obj := o.(type) {
		case *types.Const:
			if bi, ok := new(big.Int).SetString(obj.Val().ExactString(), 10); ok {
				return UConst{bi}, obj.Type(), true
			}
		case *types.Var:
			c := ev.ex.globalCell(ev.st, sp.Pkg.Path()+"."+name, obj.Type())
			return ev.st.Cells[c], obj.Type(), true
		}
	}
	return nil, nil, false
}

func (ev *SpecEnv) field(v Val, t types.Type, name string, e ast.Expr) (Val, types.Type) {
	if pv, ok := v.(PtrV); ok && pv.K == PCell {
		v = ev.ex.load(ev.st, pv, "spec")
	}
	if pv, ok := v.(PtrV); ok && pv.K == POpaque && len(pv.Path) == 0 && ev.ex.heapObjOf(pv.Elem) != nil {
		// a field of an object of the read-only linked heap, through a reference
		s := pv.Elem.Underlying().(*types.Struct)
		for i := 0; i < s.NumFields(); i++ {
			if s.Field(i).Name() == name {
				np := pv
				np.Path = []int{i}
				return ev.ex.load(ev.st, np, "spec"), s.Field(i).Type()
			}
		}
		ev.fail("no field %s in %s", name, pv.Elem)
	}
	sv, ok := v.(StructV)
	if !ok {
		ev.fail("field %s of non-struct %s in %s", name, valString(v), exprString(e))
	}
	s := sv.Typ.Underlying().(*types.Struct)
	for i := 0; i < s.NumFields(); i++ {
		if s.Field(i).Name() == name {
			return sv.F[i], s.Field(i).Type()
		}
	}
	ev.fail("no field %s in %s", name, sv.Typ)
	return nil, nil
}

func signedOf(t types.Type, dflt bool) bool {
	if t == nil {
		return dflt
	}
	_, s, ok := intInfo(t)
	if !ok {
		return dflt
	}
	return s
}

func (ev *SpecEnv) binary(x *ast.BinaryExpr) (Val, types.Type) {
	switch x.Op {
	case token.LAND:
		a := ev.termBool(x.X)
		if a.IsFalse() {
			return Scalar{False}, nil
		}
		return Scalar{And(a, ev.termBool(x.Y))}, nil
	case token.LOR:
		a := ev.termBool(x.X)
		if a.IsTrue() {
			return Scalar{True}, nil
		}
		return Scalar{Or(a, ev.termBool(x.Y))}, nil
	}
	av, at := ev.eval(x.X)
	bv, bt := ev.eval(x.Y)
	// constant folding on untyped constants
	if ua, ok := av.(UConst); ok {
		if ub, ok := bv.(UConst); ok {
			r := new(big.Int)
			switch x.Op {
			case token.ADD:
				return UConst{r.Add(ua.V, ub.V)}, nil
			case token.SUB:
				return UConst{r.Sub(ua.V, ub.V)}, nil
			case token.MUL:
				return UConst{r.Mul(ua.V, ub.V)}, nil
			case token.QUO:
				return UConst{r.Quo(ua.V, ub.V)}, nil
			case token.REM:
				return UConst{r.Rem(ua.V, ub.V)}, nil
			case token.SHL:
				return UConst{r.Lsh(ua.V, uint(ub.V.Int64()))}, nil
			case token.SHR:
				return UConst{r.Rsh(ua.V, uint(ub.V.Int64()))}, nil
			case token.EQL:
				return Scalar{BoolC(ua.V.Cmp(ub.V) == 0)}, nil
			case token.NEQ:
				return Scalar{BoolC(ua.V.Cmp(ub.V) != 0)}, nil
			case token.LSS:
				return Scalar{BoolC(ua.V.Cmp(ub.V) < 0)}, nil
			case token.LEQ:
				return Scalar{BoolC(ua.V.Cmp(ub.V) <= 0)}, nil
			case token.GTR:
				return Scalar{BoolC(ua.V.Cmp(ub.V) > 0)}, nil
			case token.GEQ:
				return Scalar{BoolC(ua.V.Cmp(ub.V) >= 0)}, nil
			}
		}
	}
	rt := at
	if rt == nil {
		rt = bt
	}
	if x.Op == token.EQL || x.Op == token.NEQ {
		eq := ev.valEq(av, bv, x)
		if x.Op == token.NEQ {
			eq = Not(eq)
		}
		return Scalar{eq}, types.Typ[types.Bool]
	}
	av = ev.coerce(av, bv)
	bv = ev.coerce(bv, av)
	a, b := ev.scalar(av, x.X), ev.scalar(bv, x.Y)
	if a.S.K == SBV && b.S.K == SBV && (x.Op == token.SHL || x.Op == token.SHR) && a.S.W != b.S.W {
		// Go allows any unsigned/int count type: resize the count to the width of the shifted operand (saturating)
		if b.S.W < a.S.W {
			b = BVZeroExt(a.S.W-b.S.W, b)
		} else {
			big1 := BVCmp("bvuge", b, BVC(big.NewInt(int64(a.S.W)), b.S.W))
			b = Ite(big1, BVC(big.NewInt(int64(a.S.W)), a.S.W), BVExtract(a.S.W-1, 0, b))
		}
	}
	if a.S.K == SBV || b.S.K == SBV {
		if !a.S.Eq(b.S) {
			ev.fail("bit-vector width mismatch in %s: %s vs %s", exprString(x), a.S, b.S)
		}
		signed := signedOf(rt, true)
		pick := func(s, u string) string {
			if signed {
				return s
			}
			return u
		}
		switch x.Op {
		case token.ADD:
			return Scalar{BVBin("bvadd", a, b)}, rt
		case token.SUB:
			return Scalar{BVBin("bvsub", a, b)}, rt
		case token.MUL:
			return Scalar{BVBin("bvmul", a, b)}, rt
		case token.QUO:
			return Scalar{BVBin(pick("bvsdiv", "bvudiv"), a, b)}, rt
		case token.REM:
			return Scalar{BVBin(pick("bvsrem", "bvurem"), a, b)}, rt
		case token.AND:
			return Scalar{BVBin("bvand", a, b)}, rt
		case token.OR:
			return Scalar{BVBin("bvor", a, b)}, rt
		case token.XOR:
			return Scalar{BVBin("bvxor", a, b)}, rt
		case token.SHL:
			return Scalar{BVBin("bvshl", a, b)}, rt
		case token.SHR:
			return Scalar{BVBin(pick("bvashr", "bvlshr"), a, b)}, rt
		case token.LSS:
			return Scalar{BVCmp(pick("bvslt", "bvult"), a, b)}, types.Typ[types.Bool]
		case token.LEQ:
			return Scalar{BVCmp(pick("bvsle", "bvule"), a, b)}, types.Typ[types.Bool]
		case token.GTR:
			return Scalar{BVCmp(pick("bvsgt", "bvugt"), a, b)}, types.Typ[types.Bool]
		case token.GEQ:
			return Scalar{BVCmp(pick("bvsge", "bvuge"), a, b)}, types.Typ[types.Bool]
		}
		ev.fail("unsupported bv op %s", x.Op)
	}
	switch x.Op {
	case token.ADD:
		return Scalar{IAdd(a, b)}, rt
	case token.SUB:
		return Scalar{ISub(a, b)}, rt
	case token.MUL:
		return Scalar{IMul(a, b)}, rt
	case token.QUO:
		return Scalar{ITDiv(a, b)}, rt
	case token.REM:
		return Scalar{ITRem(a, b)}, rt
	case token.SHL:
		if b.IsConst() {
			return Scalar{IMul(a, IntBig(Pow2(int(b.Val.Int64()))))}, rt
		}
	case token.SHR:
		if b.IsConst() {
			return Scalar{IFDiv(a, IntBig(Pow2(int(b.Val.Int64()))))}, rt
		}
	case token.LSS:
		return Scalar{ILt(a, b)}, types.Typ[types.Bool]
	case token.LEQ:
		return Scalar{ILe(a, b)}, types.Typ[types.Bool]
	case token.GTR:
		return Scalar{IGt(a, b)}, types.Typ[types.Bool]
	case token.GEQ:
		return Scalar{IGe(a, b)}, types.Typ[types.Bool]
	case token.AND, token.OR, token.XOR:
		// bitwise operations on machine integers of a known unsigned type (as the code's): constants are folded,
		// case distinctions over constants are computed per case, anything else is the uninterpreted operation
		if rt != nil {
			if bits, signed, ok := intInfo(rt); ok && !signed {
				return Scalar{ev.ex.intBitop(x.Op, a, b, bits, false)}, rt
			}
		}
	}
	ev.fail("unsupported binary op %s in %s", x.Op, exprString(x))
	return nil, nil
}

func (ev *SpecEnv) valEq(a, b Val, e ast.Expr) *Term {
	// callarg()/callres() of a call this path did not make: arbitrary, and so is any comparison with it
	for _, v := range []Val{a, b} {
		if s, ok := v.(Scalar); ok && s.T.Op == "sym" && strings.HasPrefix(s.T.Name, "nocall_") {
			return ev.ex.fresh("nocalleq", BoolSort)
		}
	}
	a = ev.coerce(a, b)
	b = ev.coerce(b, a)
	// nil comparisons
	if pa, ok := a.(PtrV); ok && pa.K == PNil {
		a, b = b, a
	}
	if pb, ok := b.(PtrV); ok && pb.K == PNil {
		switch x := a.(type) {
		case IfaceV:
			return ev.ex.isNilIface(x)
		case SliceV:
			if x.Region != nil && x.IsNil != nil {
				return x.IsNil
			}
			return BoolC(x.Region == nil)
		case MapV:
			return BoolC(x.Cell == nil)
		case PtrV:
			switch x.K {
			case PNil:
				return True
			case PBig, POpaque:
				return Eq(x.Ref, IntC(0))
			default:
				return False
			}
		case OpaqueV:
			return Eq(x.Id, IntC(0))
		}
	}
	switch x := a.(type) {
	case IfaceV:
		if y, ok := b.(IfaceV); ok {
			// as in the code: same dynamic type and equal payload / identity
			return ev.ex.valEq(ev.st, x, y, nil)
		}
		if y, ok := b.(PtrV); ok && y.K == PCell && y.Elem != nil {
			// an interface value compared with a package-level pointer (targetType != SignedFixedPointType)
			pt := types.NewPointer(y.Elem)
			return ev.ex.valEq(ev.st, x, IfaceV{Kind: IntC(int64(ev.ex.P.TypeTag(pt))), Conc: pt, Payload: y}, nil)
		}
	case StructV:
		if y, ok := b.(StructV); ok {
			var parts []*Term
			for i := range x.F {
				parts = append(parts, ev.valEq(x.F[i], y.F[i], e))
			}
			return And(parts...)
		}
	case StringV:
		if y, ok := b.(StringV); ok {
			if x.Lit != nil && y.Lit != nil {
				return BoolC(*x.Lit == *y.Lit)
			}
			return Eq(x.Id, y.Id)
		}
	}
	ta, tb := ev.scalar(a, e), ev.scalar(b, e)
	if !ta.S.Eq(tb.S) {
		ev.fail("sort mismatch in equality %s: %s vs %s", exprString(e), ta.S, tb.S)
	}
	return Eq(ta, tb)
}

func (ev *SpecEnv) constArg(e ast.Expr) int {
	v, _ := ev.eval(e)
	switch x := v.(type) {
	case UConst:
		return int(x.V.Int64())
	case Scalar:
		if x.T.IsConst() {
			return int(x.T.Val.Int64())
		}
	}
	ev.fail("constant expected: %s", exprString(e))
	return 0
}

func (ev *SpecEnv) intTerm(e ast.Expr) *Term {
	v, _ := ev.eval(e)
	return ev.scalar(v, e)
}

func (ev *SpecEnv) callExpr(x *ast.CallExpr) (Val, types.Type) {
	name := exprString(x.Fun)
	argc := len(x.Args)
	need := func(n int) {
		if argc != n {
			ev.fail("%s expects %d args", name, n)
		}
	}
	switch name {
	case "imp":
		need(2)
		a := ev.termBool(x.Args[0])
		if a.IsFalse() {
			return Scalar{True}, nil
		}
		return Scalar{Implies(a, ev.termBool(x.Args[1]))}, nil
	case "iff":
		need(2)
		return Scalar{Eq(ev.termBool(x.Args[0]), ev.termBool(x.Args[1]))}, nil
	case "ite":
		need(3)
		c := ev.termBool(x.Args[0])
		av, at := ev.eval(x.Args[1])
		bv, _ := ev.eval(x.Args[2])
		av = ev.coerce(av, bv)
		bv = ev.coerce(bv, av)
		return Scalar{Ite(c, ev.scalar(av, x.Args[1]), ev.scalar(bv, x.Args[2]))}, at
	case "old":
		need(1)
		sub := *ev
		sub.st = ev.heapState(true)
		sub.old = nil
		return sub.eval(x.Args[0])
	case "called", "callarg", "callres":
		// The calls this path made through contracts, by site "callee#k" (k-th call of that callee in the function's
		// text; calls made by an inlined body carry that body's name as a prefix, as in the obligation names):
		// called(site): the path made the call; callarg(site, i) / callres(site, i): its i-th argument / result
		// (receiver first). On a path without the call the latter two are arbitrary: guard them with called().
		if argc < 1 {
			ev.fail("%s(site, ...)", name)
		}
		lit, ok := x.Args[0].(*ast.BasicLit)
		if !ok || lit.Kind != token.STRING {
			ev.fail("%s: the site must be a string literal", name)
		}
		site, _ := strconv.Unquote(lit.Value)
		if ev.assuming {
			// in the contract of a callee, used at one of its call sites: the calls the callee made are its own
			// business - whether it made one is unknown to the caller, what it passed is arbitrary
			if name == "called" {
				return Scalar{ev.ex.fresh("calleecalled", BoolSort)}, types.Typ[types.Bool]
			}
			return Scalar{ev.ex.fresh("nocall", IntSort)}, nil
		}
		var rec *callRecord
		if ev.st.Calls != nil {
			rec = ev.st.Calls[site]
		}
		if name == "called" {
			need(1)
			return Scalar{BoolC(rec != nil)}, types.Typ[types.Bool]
		}
		need(2)
		idx := ev.constArg(x.Args[1])
		if rec == nil {
			return Scalar{ev.ex.fresh("nocall", IntSort)}, nil
		}
		vals := rec.Rets
		if name == "callarg" {
			vals = rec.Args
		}
		if idx < 0 || idx >= len(vals) {
			ev.fail("%s(%q, %d): the call has %d such values", name, site, idx, len(vals))
		}
		return vals[idx], nil
	case "loopentry":
		// loopentry(e) in a loop invariant: e evaluated in the memory of the moment the loop was entered (for data
		// that did not exist at function entry, where old(e) cannot be used); local names keep their current values
		need(1)
		if ev.loopOld == nil {
			ev.fail("loopentry() outside a loop invariant")
		}
		sub := *ev
		sub.st = ev.loopOld
		sub.old = nil
		return sub.eval(x.Args[0])
	case "pow2":
		need(1)
		return UConst{Pow2(ev.constArg(x.Args[0]))}, nil
	case "ispow2":
		// ispow2(c): c is a power of two; the argument must be a constant (side conditions of lemma macros that
		// only hold for ranges of the form [-2^k, 2^k - 1] or [0, 2^k - 1])
		need(1)
		v, _ := ev.eval(x.Args[0])
		var c *big.Int
		switch t := v.(type) {
		case UConst:
			c = t.V
		case Scalar:
			if t.T.IsConst() {
				c = t.T.Val
			}
		}
		if c == nil {
			ev.fail("ispow2 needs a constant argument: %s", exprString(x.Args[0]))
		}
		return Scalar{BoolC(c.Sign() > 0 && new(big.Int).And(c, new(big.Int).Sub(c, big.NewInt(1))).Sign() == 0)}, types.Typ[types.Bool]
	case "tbl", "tblis", "tblhas":
		// Dispatch tables (package-level map[string]struct{...}) as built by the real package initialisers:
		// tblhas(table, key): the table has an entry for key; tbl(table, key, field): the value of an integer field of
		// that entry; tblis(table, key, field, fn): a function-typed field of that entry holds the function fn
		// (table is "pkg.Var", fn is "pkg.Func", both with the package's name, e.g. "interpreter.NewInt8Value...").
		strArg := func(i int) string {
			lit, ok := x.Args[i].(*ast.BasicLit)
			if !ok || lit.Kind != token.STRING {
				ev.fail("%s: argument %d must be a string literal", name, i+1)
			}
			s, _ := strconv.Unquote(lit.Value)
			return s
		}
		lookup := func(suffix string) (string, bool) {
			var hit string
			n := 0
			for k, v := range ev.ex.P.Consts {
				if k == suffix || strings.HasSuffix(k, "/"+suffix) {
					hit = v
					n++
				}
			}
			if n > 1 {
				ev.fail("%s: ambiguous table entry %s", name, suffix)
			}
			return hit, n == 1
		}
		switch name {
		case "tblhas":
			need(2)
			found := false
			prefix := strArg(0) + "[" + strArg(1) + "]."
			for k := range ev.ex.P.Consts {
				if strings.HasPrefix(k, prefix) || strings.Contains(k, "/"+prefix) {
					found = true
				}
			}
			return Scalar{BoolC(found)}, types.Typ[types.Bool]
		case "tbl":
			need(3)
			v, ok := lookup(strArg(0) + "[" + strArg(1) + "]." + strArg(2))
			if !ok {
				ev.fail("tbl: no entry %s[%s].%s among the dumped tables", strArg(0), strArg(1), strArg(2))
			}
			n, good := new(big.Int).SetString(v, 10)
			if !good {
				ev.fail("tbl: %s[%s].%s is not an integer: %s", strArg(0), strArg(1), strArg(2), v)
			}
			return UConst{n}, nil
		default:
			need(4)
			v, ok := lookup(strArg(0) + "[" + strArg(1) + "]." + strArg(2))
			if !ok {
				return Scalar{False}, types.Typ[types.Bool]
			}
			want := strArg(3)
			got := strings.TrimPrefix(v, "func:")
			if at := strings.Index(got, "@"); at >= 0 {
				got = got[:at] // name@file:line
			}
			return Scalar{BoolC(got == want || strings.HasSuffix(got, "/"+want))}, types.Typ[types.Bool]
		}
	case "beval":
		// beval(s): the unsigned big-endian value of byte slice s (uninterpreted over contents, offset, length)
		need(1)
		v, _ := ev.eval(x.Args[0])
		sv, ok := v.(SliceV)
		if !ok {
			ev.fail("beval of non-slice")
		}
		if sv.Region == nil {
			return Scalar{IntC(0)}, nil
		}
		mem := ev.heapMem(sv.Region)
		if ev.ex.Mode == ModeInt && sv.Len.IsConst() && sv.Len.Val.IsInt64() && sv.Len.Val.Int64() <= 64 {
			// a slice of known small length: the value is written out (sum of byte * 256^position)
			n := sv.Len.Val.Int64()
			sum := IntC(0)
			for i := int64(0); i < n; i++ {
				w := new(big.Int).Lsh(big.NewInt(1), uint(8*(n-1-i)))
				sum = IAdd(sum, IMul(Select(mem, ev.ex.idxAdd(sv.Off, ev.ex.idxConst(i))), IntBig(w)))
			}
			return Scalar{sum}, nil
		}
		ev.ex.Funs["0uf_beval"] = fmt.Sprintf("(declare-fun beval (%s Int Int) Int)", mem.S)
		bt := App("beval", IntSort, mem, sv.Off, sv.Len)
		ev.ex.unfoldBeval(bt, mem, sv.Off, sv.Len)
		return Scalar{bt}, nil
	case "mhas", "mget":
		// mhas(m, k): key k is present in map m; mget(m, k): the value stored under k (the zero value if absent)
		need(2)
		mvv, _ := ev.eval(x.Args[0])
		ms, mt := ev.specMap(mvv)
		kv, _ := ev.eval(x.Args[1])
		if ms == nil {
			if name == "mhas" {
				return Scalar{False}, types.Typ[types.Bool]
			}
			return ev.ex.zeroVal(ev.st, mt.Elem()), mt.Elem()
		}
		if u, isU := kv.(UConst); isU {
			kv = Scalar{IntBig(u.V)}
		}
		k := ev.ex.termOfMapElem(kv, "key")
		if name == "mhas" {
			return Scalar{Select(ms.Present, k)}, types.Typ[types.Bool]
		}
		vs := ev.ex.mapKeySort(mt.Elem())
		return ev.ex.mapElemVal(mt.Elem(), Ite(Select(ms.Present, k), Select(ms.Vals, k), ev.ex.zeroTermOf(vs))), mt.Elem()
	case "mlen":
		need(1)
		mvv, _ := ev.eval(x.Args[0])
		ms, _ := ev.specMap(mvv)
		if ms == nil {
			return Scalar{ev.ex.idxConst(0)}, types.Typ[types.Int]
		}
		return Scalar{ms.Size}, types.Typ[types.Int]
	case "betail64", "bevalue":
		// betail64(s): the big-endian value, as uint64, of the last min(len(s), 8) bytes of byte slice s (bv mode).
		// bevalue(s): the same in bv mode; in int mode the (uninterpreted) big-endian value beval(s) of all of s.
		need(1)
		v, _ := ev.eval(x.Args[0])
		sv, ok := v.(SliceV)
		if ok && name == "bevalue" && ev.ex.Mode != ModeBV {
			if sv.Region == nil {
				return Scalar{IntC(0)}, nil
			}
			mem := ev.heapMem(sv.Region)
			if sv.Len.IsConst() && sv.Len.Val.IsInt64() && sv.Len.Val.Int64() <= 64 {
				// same written-out form as beval() for slices of known small length
				n := sv.Len.Val.Int64()
				sum := IntC(0)
				for i := int64(0); i < n; i++ {
					w := new(big.Int).Lsh(big.NewInt(1), uint(8*(n-1-i)))
					sum = IAdd(sum, IMul(Select(mem, ev.ex.idxAdd(sv.Off, ev.ex.idxConst(i))), IntBig(w)))
				}
				return Scalar{sum}, nil
			}
			ev.ex.Funs["0uf_beval"] = fmt.Sprintf("(declare-fun beval (%s Int Int) Int)", mem.S)
			bt := App("beval", IntSort, mem, sv.Off, sv.Len)
			ev.ex.unfoldBeval(bt, mem, sv.Off, sv.Len)
			return Scalar{bt}, nil
		}
		if !ok || ev.ex.Mode != ModeBV {
			ev.fail("betail64 needs a byte slice in bv mode")
		}
		if sv.Region == nil {
			return Scalar{BVC(big.NewInt(0), 64)}, types.Typ[types.Uint64]
		}
		mem := ev.heapMem(sv.Region)
		acc := BVC(big.NewInt(0), 64)
		for i := int64(0); i < 8; i++ {
			pos := ev.ex.idxSub(ev.ex.idxAdd(sv.Off, sv.Len), ev.ex.idxConst(i+1))
			b := BVZeroExt(56, Select(mem, pos))
			term := BVBin("bvshl", b, BVC(big.NewInt(8*i), 64))
			acc = BVBin("bvor", acc, Ite(ev.ex.lt(ev.ex.idxConst(i), sv.Len), term, BVC(big.NewInt(0), 64)))
		}
		return Scalar{acc}, types.Typ[types.Uint64]
	case "pow2n":
		// pow2n(n, max): 2^n for a symbolic 0 <= n < max (1 outside that range)
		need(2)
		return Scalar{ev.ex.pow2Term(ev.intTerm(x.Args[0]), ev.constArg(x.Args[1]))}, nil
	case "abs":
		need(1)
		return Scalar{IAbs(ev.intTerm(x.Args[0]))}, nil
	case "min", "max":
		need(2)
		a, b := ev.intTerm(x.Args[0]), ev.intTerm(x.Args[1])
		if name == "min" {
			return Scalar{Ite(ILt(a, b), a, b)}, nil
		}
		return Scalar{Ite(ILt(a, b), b, a)}, nil
	case "clamp":
		need(3)
		v, lo, hi := ev.intTerm(x.Args[0]), ev.intTerm(x.Args[1]), ev.intTerm(x.Args[2])
		return Scalar{Ite(ILt(v, lo), lo, Ite(IGt(v, hi), hi, v))}, nil
	case "inrange":
		need(3)
		v, lo, hi := ev.intTerm(x.Args[0]), ev.intTerm(x.Args[1]), ev.intTerm(x.Args[2])
		return Scalar{And(ILe(lo, v), ILe(v, hi))}, nil
	case "tdiv":
		need(2)
		return Scalar{ITDiv(ev.intTerm(x.Args[0]), ev.intTerm(x.Args[1]))}, nil
	case "trem":
		need(2)
		return Scalar{ITRem(ev.intTerm(x.Args[0]), ev.intTerm(x.Args[1]))}, nil
	case "fdiv":
		need(2)
		return Scalar{IFDiv(ev.intTerm(x.Args[0]), ev.intTerm(x.Args[1]))}, nil
	case "ediv":
		need(2)
		return Scalar{IDivE(ev.intTerm(x.Args[0]), ev.intTerm(x.Args[1]))}, nil
	case "emod":
		need(2)
		return Scalar{IModE(ev.intTerm(x.Args[0]), ev.intTerm(x.Args[1]))}, nil
	case "wrap":
		// wrap(x, bits, signed)
		need(3)
		sv, _ := ev.eval(x.Args[2])
		return Scalar{IWrap(ev.intTerm(x.Args[0]), ev.constArg(x.Args[1]), sv.(Scalar).T.IsTrue())}, nil
	case "len", "cap":
		need(1)
		v, _ := ev.eval(x.Args[0])
		switch s := v.(type) {
		case SliceV:
			if name == "cap" {
				return Scalar{s.Cap}, types.Typ[types.Int]
			}
			return Scalar{s.Len}, types.Typ[types.Int]
		case StringV:
			return Scalar{s.Len}, types.Typ[types.Int]
		case ArrayV:
			return Scalar{ev.ex.idxConst(s.Typ.Len())}, types.Typ[types.Int]
		}
		ev.fail("len of %s", valString(v))
	case "kind":
		need(1)
		v, vt := ev.eval(x.Args[0])
		iv, ok := v.(IfaceV)
		if !ok {
			// a value of statically known concrete type (e.g. the receiver `self` of an expanded interface contract)
			if vt != nil {
				if _, isIface := vt.Underlying().(*types.Interface); !isIface {
					return Scalar{IntC(int64(ev.ex.P.TypeTag(vt)))}, nil
				}
			}
			ev.fail("kind() of non-interface %s", valString(v))
		}
		return Scalar{iv.Kind}, nil
	case "big":
		// big(p): mathematical value of *big.Int p in the current (post) heap
		need(1)
		v, _ := ev.eval(x.Args[0])
		pv, ok := v.(PtrV)
		if !ok || (pv.K != PBig && pv.K != PNil) {
			ev.fail("big() of non-*big.Int %s", valString(v))
		}
		ref := IntC(0)
		if pv.K == PBig {
			ref = pv.Ref
		}
		return Scalar{Select(ev.st.Big, ref)}, nil
	case "ref":
		need(1)
		v, _ := ev.eval(x.Args[0])
		return Scalar{ev.scalar(v, x.Args[0])}, nil
	case "fresh":
		// fresh(p): p was allocated during the call (refs allocated by the verified code are negative;
		// for assumed callees: fresh result refs are constrained to be new)
		need(1)
		v, _ := ev.eval(x.Args[0])
		if ev.assuming {
			return Scalar{Eq(ev.scalar(v, x.Args[0]), IntC(int64(-(1000000 + ev.ex.nfreshNext()))))}, nil
		}
		return Scalar{ILt(ev.scalar(v, x.Args[0]), IntC(0))}, nil
	case "num":
		need(1)
		v, t := ev.eval(x.Args[0])
		return Scalar{ev.num(v, t, x.Args[0])}, nil
	case "mval":
		need(1)
		v, t := ev.eval(x.Args[0])
		return Scalar{ev.mvalOf(v, t)}, nil
	case "ghostof":
		// ghostof(x, "name"): a ghost attribute of the (symbolic) interface value x
		need(2)
		v, _ := ev.eval(x.Args[0])
		lit, ok := x.Args[1].(*ast.BasicLit)
		if !ok {
			ev.fail("ghostof needs a string literal")
		}
		gname, _ := strconv.Unquote(lit.Value)
		iv, ok := v.(IfaceV)
		if ok && iv.Sym != nil && iv.Conc == nil {
			return Scalar{ev.ex.ifaceGhost(ev.st, iv, gname)}, nil
		}
		// a value of known type: the attribute is the one declared for the type (typeattr)
		var ct types.Type
		var pv Val
		if ok && iv.Conc != nil {
			ct, pv = iv.Conc, iv.Payload
		} else if !ok {
			_, vt := ev.eval(x.Args[0])
			ct, pv = vt, v
		}
		if ct != nil {
			if t := ev.ex.typeAttrTerm(ev.st, pv, ct, gname); t != nil {
				return Scalar{t}, nil
			}
			ev.fail("type %s declares no attribute %q (typeattr)", ct, gname)
		}
		ev.fail("ghostof() needs a symbolic interface value or a value of a type with typeattr, got %s", valString(v))
		return nil, nil
	case "implements":
		need(2)
		v, _ := ev.eval(x.Args[0])
		iv, ok := v.(IfaceV)
		if !ok {
			ev.fail("implements() of non-interface value")
		}
		it := ev.ex.P.LookupType(exprString(x.Args[1]), ev.pkg)
		if it == nil {
			ev.fail("unknown interface %s", exprString(x.Args[1]))
		}
		return Scalar{ev.ex.implementsTerm(iv, it)}, nil
	case "valid":
		need(1)
		v, t := ev.eval(x.Args[0])
		return Scalar{ev.valid(v, t)}, nil
	case "ghost":
		// ghost("name"): ghost state variable
		need(1)
		lit, ok := x.Args[0].(*ast.BasicLit)
		if !ok {
			ev.fail("ghost needs a string literal")
		}
		n, _ := strconv.Unquote(lit.Value)
		g, ok := ev.st.Ghost[n]
		if !ok {
			ev.fail("unknown ghost %s", n)
		}
		return Scalar{g}, nil
	case "all":
		// all(x, body): unbounded universal quantifier over the integers (axioms)
		if argc < 2 {
			ev.fail("all(x..., body)")
		}
		sub := *ev
		sub.vars = map[string]Val{}
		for k, v := range ev.vars {
			sub.vars[k] = v
		}
		var binders []string
		for _, a := range x.Args[:argc-1] {
			id, ok := a.(*ast.Ident)
			if !ok {
				ev.fail("all: binder must be an identifier")
			}
			qn := "ax_" + id.Name
			sub.vars[id.Name] = Scalar{Sym(qn, IntSort)}
			binders = append(binders, fmt.Sprintf("(%s Int)", qn))
		}
		body := sub.termBool(x.Args[argc-1])
		return Scalar{App("forall ("+strings.Join(binders, " ")+")", BoolSort, body)}, nil
	case "forall", "exists":
		// forall(i, lo, hi, body): lo <= i < hi
		need(4)
		id, ok := x.Args[0].(*ast.Ident)
		if !ok {
			ev.fail("forall: first arg must be an identifier")
		}
		lov, _ := ev.eval(x.Args[1])
		hiv, _ := ev.eval(x.Args[2])
		qs := ev.ex.idxSort()
		ev.depth++
		qn := fmt.Sprintf("q%d_%s", ev.depth, id.Name)
		q := Sym(qn, qs)
		sub := *ev
		sub.vars = map[string]Val{}
		for k, v := range ev.vars {
			sub.vars[k] = v
		}
		sub.vars[id.Name] = Scalar{q}
		sub.vtypes = map[string]types.Type{}
		for k, v := range ev.vtypes {
			sub.vtypes[k] = v
		}
		sub.vtypes[id.Name] = types.Typ[types.Int]
		lo := ev.scalar(ev.coerceIdx(lov), x.Args[1])
		hi := ev.scalar(ev.coerceIdx(hiv), x.Args[2])
		body := sub.termBool(x.Args[3])
		ev.depth--
		rng := And(ev.ex.le(lo, q), ev.ex.lt(q, hi))
		if name == "forall" {
			return Scalar{App(fmt.Sprintf("forall ((%s %s))", qn, qs), BoolSort, Implies(rng, body))}, nil
		}
		return Scalar{App(fmt.Sprintf("exists ((%s %s))", qn, qs), BoolSort, And(rng, body))}, nil
	}
	// Go-style integer conversions: uint64(x), int(x), byte(x) ...
	if t := basicTypeByName(name); t != nil && argc == 1 {
		v, ft := ev.eval(x.Args[0])
		if u, ok := v.(UConst); ok {
			return Scalar{ev.ex.intConst(u.V, t)}, t
		}
		if ft == nil {
			if ev.ex.Mode == ModeInt {
				// math integer -> machine type: wrap
				bits, signed, _ := intInfo(t)
				return Scalar{IWrap(ev.scalar(v, x.Args[0]), bits, signed)}, t
			}
			ev.fail("conversion %s of untyped spec value", name)
		}
		return ev.ex.convert(ev.st, v, ft, t), t
	}
	// uninterpreted functions
	if uf, ok := ev.ex.P.CS.UFuns[name]; ok {
		if len(uf.Args) != argc {
			ev.fail("ufun %s expects %d args", name, len(uf.Args))
		}
		if sf, isAbs := ev.ex.P.CS.SpecFuns["abs:"+name]; isAbs && argc > 0 && len(sf.Params) == argc {
			// an abstraction function: where its first argument is a modelled object (the module's own functions are
			// being verified) it means its definition over that object's fields; applied to a reference into the
			// read-only heap (clients) it stays uninterpreted
			{
				pv, _ := ev.eval(x.Args[0])
				if p, ok := pv.(PtrV); ok && p.K == PCell {
					sub := *ev
					sub.vars = map[string]Val{}
					sub.vtypes = map[string]types.Type{}
					for i, pn := range sf.Params {
						v, t := ev.eval(x.Args[i])
						sub.vars[pn] = v
						sub.vtypes[pn] = t
					}
					if sf.Pkg != "" && (ev.pkg == nil || ev.pkg.Path() != sf.Pkg) {
						for _, sp := range ev.ex.P.Prog.AllPackages() {
							if sp.Pkg.Path() == sf.Pkg {
								sub.pkg = sp.Pkg
								break
							}
						}
					}
					return sub.eval(sf.Expr)
				}
			}
		}
		var args []*Term
		for _, a := range x.Args {
			args = append(args, ev.intTerm(a))
		}
		rs := IntSort
		if uf.Res == "Bool" {
			rs = BoolSort
		}
		ev.ex.useUFun(uf)
		t := App(name, rs, args...)
		ev.ex.refineUFun(name, t, args)
		return Scalar{t}, nil
	}
	// user-defined spec functions
	if rf, ok := ev.ex.P.CS.RecFuns[name]; ok {
		// a recursive spec function: an application of the SMT function defined (once per verified function) from
		// its body; a byte-slice argument is passed as (contents, offset, length)
		if len(rf.Params) != argc {
			ev.fail("recursive spec function %s expects %d args", name, len(rf.Params))
		}
		var args []*Term
		for i := range rf.Params {
			v, _ := ev.eval(x.Args[i])
			if rf.PTypes[i] == "[]byte" {
				sv, ok := v.(SliceV)
				if !ok || sv.Region == nil {
					ev.fail("%s: argument %d must be a byte slice", name, i+1)
				}
				args = append(args, ev.heapMem(sv.Region), sv.Off, sv.Len)
				continue
			}
			pt := basicTypeByName(rf.PTypes[i])
			if pt == nil {
				ev.fail("%s: unsupported parameter type %s", name, rf.PTypes[i])
			}
			if u, isU := v.(UConst); isU {
				v = Scalar{ev.ex.intConst(u.V, pt)}
			}
			args = append(args, ev.scalar(v, x.Args[i]))
		}
		rs := BoolSort
		var rt types.Type = types.Typ[types.Bool]
		if rf.Result != "bool" {
			rt = basicTypeByName(rf.Result)
			if rt == nil {
				ev.fail("%s: unsupported result type %s", name, rf.Result)
			}
			rs = ev.ex.intSort(rt)
		}
		ev.ex.defineRecFun(rf, rs)
		return Scalar{App(name, rs, args...)}, rt
	}
	if sf, ok := ev.ex.P.CS.SpecFuns[name]; ok {
		if len(sf.Params) != argc {
			ev.fail("spec function %s expects %d args", name, len(sf.Params))
		}
		sub := *ev
		sub.vars = map[string]Val{}
		sub.vtypes = map[string]types.Type{}
		for i, p := range sf.Params {
			v, t := ev.eval(x.Args[i])
			sub.vars[p] = v
			sub.vtypes[p] = t
		}
		if sf.Pkg != "" && (ev.pkg == nil || ev.pkg.Path() != sf.Pkg) {
			// a macro defined in another package's contract file: type names in its body resolve in that package
			for _, sp := range ev.ex.P.Prog.AllPackages() {
				if sp.Pkg.Path() == sf.Pkg {
					sub.pkg = sp.Pkg
					break
				}
			}
		}
		// spec functions may refer to contract-level lets of the caller? no: closed.
		return sub.eval(sf.Expr)
	}
	ev.fail("unknown spec function %s", name)
	return nil, nil
}

func basicTypeByName(n string) types.Type {
	switch n {
	case "int":
		return types.Typ[types.Int]
	case "int8":
		return types.Typ[types.Int8]
	case "int16":
		return types.Typ[types.Int16]
	case "int32":
		return types.Typ[types.Int32]
	case "int64":
		return types.Typ[types.Int64]
	case "uint":
		return types.Typ[types.Uint]
	case "uint8", "byte":
		return types.Typ[types.Uint8]
	case "uint16":
		return types.Typ[types.Uint16]
	case "uint32":
		return types.Typ[types.Uint32]
	case "uint64":
		return types.Typ[types.Uint64]
	}
	return nil
}

// num: mathematical value of a numeric Value (concrete payload)
func (ev *SpecEnv) num(v Val, t types.Type, e ast.Expr) *Term {
	switch x := v.(type) {
	case Scalar:
		return x.T
	case UConst:
		return IntBig(x.V)
	case IfaceV:
		if x.Conc != nil {
			return ev.num(x.Payload, x.Conc, e)
		}
		ev.fail("num() of symbolic interface value; project it first: %s", exprString(e))
	case StructV:
		ts := ev.ex.P.CS.Types[typeKey(x.Typ)]
		if (ts == nil || ts.Num == nil) && t != nil {
			// a value converted between named struct types of the same shape (Fix128(raw)): the static type decides
			if st := ev.ex.P.CS.Types[typeKey(t)]; st != nil && st.Num != nil {
				x.Typ = t
				v = x
				ts = st
			}
		}
		if ts != nil && ts.Num != nil {
			sub := *ev
			sub.vars = map[string]Val{"self": v}
			sub.vtypes = map[string]types.Type{"self": x.Typ}
			if n, ok := x.Typ.(*types.Named); ok && n.Obj().Pkg() != nil {
				sub.pkg = n.Obj().Pkg()
			}
			r, _ := sub.eval(ts.Num.Expr)
			return sub.scalar(r, e)
		}
		ev.fail("no typenum for %s", x.Typ)
	}
	ev.fail("num() of %s", valString(v))
	return nil
}

// valid: type invariant of a value
func (ev *SpecEnv) valid(v Val, t types.Type) *Term {
	switch x := v.(type) {
	case IfaceV:
		if x.Conc != nil {
			return ev.valid(x.Payload, x.Conc)
		}
		if x.Sym == nil {
			return True
		}
		// all types with an invariant that could be in there
		var parts []*Term
		for k, ts := range ev.ex.P.CS.Types {
			if ts.Inv == nil {
				continue
			}
			tt := ev.ex.P.LookupType(k, nil)
			if tt == nil {
				continue
			}
			p := ev.ex.payload(ev.st, x, tt)
			parts = append(parts, Implies(Eq(x.Kind, IntC(int64(ev.ex.P.TypeTag(tt)))), ev.valid(p, tt)))
		}
		return And(parts...)
	case StructV:
		ts := ev.ex.P.CS.Types[typeKey(x.Typ)]
		if ts == nil || ts.Inv == nil {
			return True
		}
		sub := *ev
		sub.vars = map[string]Val{"self": v}
		sub.vtypes = map[string]types.Type{"self": x.Typ}
		if n, ok := x.Typ.(*types.Named); ok && n.Obj().Pkg() != nil {
			sub.pkg = n.Obj().Pkg()
		}
		return sub.termBool(ts.Inv.Expr)
	}
	return True
}

// havoc the location denoted by a modifies expression: big(p), mem(s), *p
func (ev *SpecEnv) havoc(e ast.Expr) {
	ce, ok := e.(*ast.CallExpr)
	if ok {
		switch exprString(ce.Fun) {
		case "big":
			v, _ := ev.eval(ce.Args[0])
			pv, ok := v.(PtrV)
			if !ok || pv.K != PBig {
				ev.fail("modifies big(): not a *big.Int")
			}
			ev.ex.writeBig(ev.st, pv.Ref, ev.ex.fresh("hv", IntSort), "call")
			return
		case "mem":
			v, _ := ev.eval(ce.Args[0])
			sv, ok := v.(SliceV)
			if !ok {
				ev.fail("modifies mem(): not a slice")
			}
			if sv.Region != nil {
				ev.st.Mem[sv.Region] = ev.ex.fresh("hvmem", ev.st.Mem[sv.Region].S)
			}
			return
		case "appended":
			// appended(*p): the slice variable *p is replaced by a slice that keeps the first old(len(*p)) elements
			// (elements may have been appended; the backing array may be new)
			se, isStar := ce.Args[0].(*ast.StarExpr)
			if !isStar {
				ev.fail("modifies appended(*p): a dereferenced pointer to a slice is expected")
			}
			v, _ := ev.eval(se.X)
			pv, ok := v.(PtrV)
			if !ok || pv.K != PCell {
				ev.fail("modifies appended(*p): not a modelled pointer")
			}
			old, ok := ev.ex.load(ev.st, pv, "spec").(SliceV)
			if !ok {
				ev.fail("modifies appended(*p): not a slice")
			}
			ex := ev.ex
			nv := ex.havocLike(ev.st, old, "app").(SliceV)
			if old.Region != nil && nv.Region != nil && len(old.Region.Sub) == 0 {
				oldMem, newMem := ev.st.Mem[old.Region], ev.st.Mem[nv.Region]
				// the new slice starts where the old one started (offset kept), is at least as long, and agrees
				// with the old contents below the old end
				nv.Off = old.Off
				ev.st.assume(ex.le(old.Len, nv.Len))
				end := ex.def("oldend", ex.idxAdd(old.Off, old.Len))
				// No quantified frame fact is needed: every read of the new array (also through later stores and at
				// indices that are not linear terms) is unfolded by Select into reads of the old array below the
				// old end (ArrayPrefix), so the callers' queries stay quantifier-free.
				if newMem.Op == "sym" {
					ArrayPrefix[newMem.Name] = arrayPrefix{Old: oldMem, Len: end}
				}
				// positions at or beyond the new end lie at or beyond the old end
				if nb, _, ok := linIdx(ex.idxAdd(nv.Off, nv.Len), 0); ok && nb != "" {
					BaseLowerBound[nb] = end
				}
			}
			ex.store(ev.st, pv, nv, "spec")
			return
		case "mapof":
			// mapof(m): the contents and length of map m may change
			v, _ := ev.eval(ce.Args[0])
			mv, ok := v.(MapV)
			if !ok {
				ev.fail("modifies mapof(): not a map")
			}
			if mv.Cell == nil {
				return
			}
			old, have := ev.st.Maps[mv.Cell]
			if !have {
				ev.fail("modifies mapof(): unknown map")
			}
			sz := ev.ex.fresh("hvmlen", old.Size.S)
			ev.st.assume(ev.ex.geZero(sz))
			ev.st.Maps[mv.Cell] = &MapState{Vals: ev.ex.fresh("hvmvals", old.Vals.S), Present: ev.ex.fresh("hvmhas", old.Present.S), Size: sz}
			return
		case "elems":
			// elems(s): exactly the elements s[0..len(s)) may change; the rest of the backing array is kept
			v, _ := ev.eval(ce.Args[0])
			sv, ok := v.(SliceV)
			if !ok {
				ev.fail("modifies elems(): not a slice")
			}
			if sv.Region == nil {
				return
			}
			if len(sv.Region.Sub) > 0 {
				ev.fail("modifies elems(): struct-element regions not supported")
			}
			ex := ev.ex
			old := ev.st.Mem[sv.Region]
			nw := ex.fresh("hvel", old.S)
			if sv.Region.FixedLen >= 0 && sv.Region.FixedLen <= 64 {
				cur := old
				for p := int64(0); p < sv.Region.FixedLen; p++ {
					pos := ex.idxConst(p)
					in := And(ex.le(sv.Off, pos), ex.lt(pos, ex.idxAdd(sv.Off, sv.Len)))
					cur = Store(cur, pos, Ite(in, Select(nw, pos), Select(old, pos)))
				}
				ev.st.Mem[sv.Region] = ex.def("hvmem", cur)
				return
			}
			i := Sym("qi", ex.idxSort())
			in := And(ex.le(sv.Off, i), ex.lt(i, ex.idxAdd(sv.Off, sv.Len)))
			ev.st.assume(App(fmt.Sprintf("forall ((qi %s))", ex.idxSort()), BoolSort, Implies(Not(in), Eq(Select(nw, i), Select(old, i)))))
			ev.st.Mem[sv.Region] = nw
			return
		case "ghost":
			lit := ce.Args[0].(*ast.BasicLit)
			n, _ := strconv.Unquote(lit.Value)
			if _, have := ev.st.Ghost[n]; !have {
				ev.fail("modifies ghost(%q): the function under verification does not declare that ghost (option ghost=...)", n)
			}
			ev.st.Ghost[n] = ev.ex.fresh("gh_"+n, ev.st.Ghost[n].S)
			return
		}
	}
	if se, ok := e.(*ast.StarExpr); ok {
		v, _ := ev.eval(se.X)
		pv, ok := v.(PtrV)
		if !ok || pv.K != PCell {
			ev.fail("modifies *p: not a modelled pointer")
		}
		old := ev.ex.load(ev.st, pv, "spec")
		ev.ex.store(ev.st, pv, ev.ex.havocLike(ev.st, old, "hv"), "spec")
		return
	}
	ev.fail("unsupported modifies target %s", exprString(e))
}

// havocLike: fresh symbolic value with the same shape as v
func (ex *Exec) havocLike(st *State, v Val, name string) Val {
	switch x := v.(type) {
	case Scalar:
		return Scalar{ex.fresh(name, x.T.S)}
	case StructV:
		nf := make([]Val, len(x.F))
		for i, f := range x.F {
			nf[i] = ex.havocLike(st, f, name)
		}
		return StructV{Typ: x.Typ, F: nf}
	case MapV:
		if x.Cell == nil {
			return x
		}
		save := ex.Inputs
		ex.resultMode = true
		nm := ex.symMap(st, fmt.Sprintf("%smap_%d", name, ex.nfreshNext()), x.Typ)
		ex.resultMode = false
		ex.Inputs = save
		return nm
	case OpaqueV:
		return OpaqueV{Typ: x.Typ, Id: ex.fresh(name+"id", IntSort)}
	case PtrV:
		if x.K == PBig {
			return PtrV{K: PBig, Ref: ex.fresh(name+"ref", IntSort), Elem: x.Elem}
		}
	case SliceV:
		if x.Region == nil {
			return x
		}
		r := ex.newRegion(name, x.Elem, -1)
		st.Mem[r] = ex.fresh(name+"mem", ex.regionSort(x.Elem))
		l := ex.fresh(name+"len", ex.idxSort())
		c := ex.fresh(name+"cap", ex.idxSort())
		st.assume(And(ex.geZero(l), ex.le(l, c), ex.le(c, ex.maxLen())))
		return SliceV{Elem: x.Elem, Region: r, Off: ex.idxConst(0), Len: l, Cap: c}
	}
	ex.reject("cannot havoc value %s", valString(v))
	return nil
}

// writeBig updates the big.Int heap at ref and records the write for the frame obligation.
func (ex *Exec) writeBig(st *State, ref *Term, val *Term, site string) {
	st.Big = ex.def("heap", Store(st.Big, ref, val))
	ex.BigWrites = append(ex.BigWrites, BigWrite{PC: append([]*Term{}, st.PC...), Ref: ref, Site: site})
}

type BigWrite struct {
	PC   []*Term
	Ref  *Term
	Site string
}

// unfoldBeval: with `option bevalbound=N` every occurrence of the uninterpreted big-endian value beval(mem, off, len)
// of a slice of symbolic length comes with its definition for lengths up to N, written out:
//
//	0 <= len <= N  ==>  beval(mem, off, len) == sum over k < N of (k < len ? mem[off+len-1-k] * 256^k : 0)
//
// This is what beval means (the same sum is used directly for slices of constant length); it is an instance of
// the definition, not a fact about the code.
func (ex *Exec) unfoldBeval(bt, mem, off, ln *Term) {
	if ex.C == nil || ex.Mode != ModeInt {
		return
	}
	opt := ex.C.Options["bevalbound"]
	if opt == "" {
		return
	}
	n, err := strconv.Atoi(opt)
	if err != nil || n <= 0 || n > 64 {
		ex.reject("option bevalbound=%s: need 1..64", opt)
	}
	key := "bevalunfold:" + bt.String()
	if ex.constSeen == nil {
		ex.constSeen = map[string]bool{}
	}
	if ex.constSeen[key] {
		return
	}
	ex.constSeen[key] = true
	sum := IntC(0)
	var ranges []*Term
	for k := 0; k < n; k++ {
		pos := ISub(IAdd(off, ln), IntC(int64(k+1)))
		sel := Select(mem, pos)
		term := IMul(sel, IntBig(new(big.Int).Lsh(big.NewInt(1), uint(8*k))))
		sum = IAdd(sum, Ite(ILt(IntC(int64(k)), ln), term, IntC(0)))
		// the elements are bytes (memory only ever holds values of the element type)
		ranges = append(ranges, Implies(ILt(IntC(int64(k)), ln), And(IGe(sel, IntC(0)), ILe(sel, IntC(255)))))
	}
	ex.Assumes = append(ex.Assumes, Implies(And(IGe(ln, IntC(0)), ILe(ln, IntC(int64(n)))), And(append(ranges, Eq(bt, sum))...)))
}

// defineRecFun emits (once per verified function) the SMT definition of a recursive spec function:
//
//	(define-fun-rec name ((p!mem (Array ..)) (p!off Idx) (p!len Idx) (i Sort) ...) Result body)
//
// The body is the spec expression evaluated over symbolic parameters; calls of the function inside its own body
// become applications (the use-site code above).
func (ex *Exec) defineRecFun(rf *RecFun, rs Sort) {
	key := "1rf_" + rf.Name
	if _, done := ex.Funs[key]; done {
		return
	}
	ex.Funs[key] = "" // in progress (recursive calls while the body is built)
	st := &State{Cells: map[*Cell]Val{}, Mem: map[*Region]*Term{}, Maps: map[*Cell]*MapState{}, Ghost: map[string]*Term{}}
	st.Big = Sym("heap0", ArraySort(IntSort, IntSort))
	vars := map[string]Val{}
	vtypes := map[string]types.Type{}
	var decl []string
	byteT := types.Typ[types.Uint8]
	for i, p := range rf.Params {
		if rf.PTypes[i] == "[]byte" {
			r := ex.newRegion("rf_"+rf.Name+"_"+p, byteT, -1)
			mem := Sym("rf!"+p+"!mem", ex.regionSort(byteT))
			off := Sym("rf!"+p+"!off", ex.idxSort())
			ln := Sym("rf!"+p+"!len", ex.idxSort())
			st.Mem[r] = mem
			vars[p] = SliceV{Elem: byteT, Region: r, Off: off, Len: ln, Cap: ln}
			vtypes[p] = types.NewSlice(byteT)
			decl = append(decl, fmt.Sprintf("(%s %s) (%s %s) (%s %s)", mem.Name, mem.S, off.Name, off.S, ln.Name, ln.S))
			continue
		}
		pt := basicTypeByName(rf.PTypes[i])
		if pt == nil {
			ex.reject("recfun %s: unsupported parameter type %s", rf.Name, rf.PTypes[i])
		}
		s := Sym("rf!"+p, ex.intSort(pt))
		vars[p] = Scalar{s}
		vtypes[p] = pt
		decl = append(decl, fmt.Sprintf("(%s %s)", s.Name, s.S))
	}
	nDefs := len(ex.Defs)
	env := &SpecEnv{ex: ex, st: st, vars: vars, vtypes: vtypes, contract: ex.C}
	if ex.Fn != nil && ex.Fn.Pkg != nil {
		env.pkg = ex.Fn.Pkg.Pkg
	}
	bv, _ := env.eval(rf.Expr)
	body := env.scalar(bv, rf.Expr)
	if len(ex.Defs) != nDefs {
		ex.reject("recfun %s: the body introduces auxiliary definitions (not a pure expression)", rf.Name)
	}
	ex.Funs[key] = fmt.Sprintf("(define-fun-rec %s (%s) %s %s)", rf.Name, strings.Join(decl, " "), rs, body.String())
}
