package engine

import (
	"fmt"
	"go/ast"
	"go/types"
	"math/big"
	"sort"
	"strings"

	"golang.org/x/tools/go/ssa"
)

func newBig(s string) (*big.Int, bool) {
	return new(big.Int).SetString(s, 10)
}

// loopCut handles arrival at a loop header that carries invariants: the work is done after the header's
// phis have taken the values of the incoming edge (loopCutAfterPhis).
func (ex *Exec) loopCut(st *State, fr *Frame, header *ssa.BasicBlock, ord int, spec *LoopSpec, back bool) bool {
	fr.Pending = &pendingCut{ord: ord, spec: spec, back: back, hdr: header}
	return false
}

func (ex *Exec) invEnv(st *State, fr *Frame) *SpecEnv {
	vars := map[string]Val{}
	// the function's parameters keep denoting their entry values unless shadowed by a source-level name
	vtypes := map[string]types.Type{}
	if fr.Fn == ex.Fn {
		for k, v := range ex.ParamVals {
			vars[k] = v
		}
		for _, p := range fr.Fn.Params {
			vtypes[p.Name()] = p.Type()
		}
	}
	return &SpecEnv{ex: ex, st: st, old: ex.Entry, vars: vars, vtypes: vtypes, pkg: fr.Fn.Pkg.Pkg, contract: ex.contractFor(fr.Fn), fr: fr}
}

// loopCutAfterPhis: on entry to the loop: prove the invariant, havoc everything the loop may change,
// assume the invariant. On the back edge: prove the invariant and end the path.
func (ex *Exec) loopCutAfterPhis(st *State, fr *Frame, pc *pendingCut) bool {
	if !pc.back {
		// the state in which the loop is entered (before anything is havocked): loopentry(e) in invariants
		if fr.LoopSnap == nil {
			fr.LoopSnap = map[int]*State{}
		}
		fr.LoopSnap[pc.ord] = st.snapshot()
	}
	env := ex.invEnv(st, fr)
	env.loopOld = fr.LoopSnap[pc.ord]
	var inv []*Term
	for _, c := range pc.spec.Invariants {
		inv = append(inv, env.termBool(c.Expr))
	}
	suffix := ex.fnSuffix(fr)
	if pc.back {
		for i, t := range inv {
			ex.Side = append(ex.Side, SideObl{Name: fmt.Sprintf("loop.%d.step.%d%s", pc.ord, i+1, suffix), PC: append([]*Term{}, st.PC...), Cond: t})
		}
		return true
	}
	for i, t := range inv {
		ex.Side = append(ex.Side, SideObl{Name: fmt.Sprintf("loop.%d.init.%d%s", pc.ord, i+1, suffix), PC: append([]*Term{}, st.PC...), Cond: t})
	}
	// havoc: header phis
	for _, ins := range pc.hdr.Instrs {
		phi, ok := ins.(*ssa.Phi)
		if !ok {
			break
		}
		save := ex.Inputs
		ex.resultMode = true
		nv := ex.symVal(st, fmt.Sprintf("loop%d_%s_%d", pc.ord, phi.Comment, ex.nfreshNext()), phi.Type(), 1)
		ex.resultMode = false
		ex.Inputs = save
		fr.Vals[phi] = nv
		if phi.Comment != "" {
			fr.Names[phi.Comment] = nameRef{V: nv, Typ: phi.Type()}
		}
	}
	// havoc memory written in the loop body
	li := ex.loops(fr.Fn)
	regions, big := false, false
	ghosts, ghostsAll := map[string]bool{}, false
	callWrites := false
	cells := map[*Cell]bool{}
	regionSet := map[*Region]bool{}
	for _, b := range li.body[pc.hdr.Index] {
		for _, ins := range b.Instrs {
			switch x := ins.(type) {
			case *ssa.Store:
				root := x.Addr
				for {
					if fa, ok := root.(*ssa.FieldAddr); ok {
						root = fa.X
						continue
					}
					break
				}
				switch r := root.(type) {
				case *ssa.IndexAddr:
					// stores into an array allocated inside the loop body (varargs temporaries) touch no
					// memory that exists at the cut
					if al, ok := r.X.(*ssa.Alloc); ok && al.Block() != nil {
						inLoop := false
						for _, lb := range li.body[pc.hdr.Index] {
							if lb == al.Block() {
								inLoop = true
							}
						}
						if inLoop {
							continue
						}
					}
					// a store through a slice that exists unchanged at the cut (defined outside the loop body):
					// only that slice's region is written (distinct regions never overlap in the memory model)
					if sv, ok := fr.Vals[r.X].(SliceV); ok && sv.Region != nil && !definedIn(r.X, li.body[pc.hdr.Index]) {
						regionSet[sv.Region] = true
						for _, sub := range sv.Region.Sub {
							regionSet[sub] = true
						}
						continue
					}
					regions = true
				default:
					if pv, ok := fr.Vals[root].(PtrV); ok && pv.K == PCell {
						cells[pv.Cell] = true
					} else if pv, ok := fr.Vals[root].(PtrV); ok && pv.K == PElem {
						regions = true
					}
				}
			case *ssa.Call:
				if _, isB := x.Common().Value.(*ssa.Builtin); isB {
					if x.Common().Value.Name() == "copy" {
						regions = true
					}
					continue
				}
				if f := x.Common().StaticCallee(); f != nil {
					if c, ok := ex.P.CS.Funcs[funcKey(f)]; ok && (c.Pure || (len(c.Modifies) == 0 && !c.Inline)) {
						continue
					}
				}
				if ex.callGhostEffects(st, x.Common(), ghosts, 0) {
					ghostsAll = true
				}
				regions, big = true, true
				// a callee that is executed inline (or unknown) may write through any pointer it can reach: every
				// modelled object other than immutable globals and non-escaping locals is havocked at the cut
				callWrites = true
			}
		}
	}
	if callWrites {
		keep := map[*Cell]bool{}
		for _, gc := range ex.globalCells {
			keep[gc] = true
		}
		// locals of this frame whose address never leaves the function keep their value unless stored to directly
		for v, val := range fr.Vals {
			if al, ok := v.(*ssa.Alloc); ok && !allocEscapes(al) {
				if pv, ok := val.(PtrV); ok && pv.K == PCell {
					keep[pv.Cell] = true
				}
			}
		}
		for c := range st.Cells {
			if !keep[c] {
				cells[c] = true
			}
		}
	}
	var cellList []*Cell
	for c := range cells {
		cellList = append(cellList, c)
	}
	sort.Slice(cellList, func(i, j int) bool { return cellList[i].id < cellList[j].id })
	for _, c := range cellList {
		if old, ok := st.Cells[c]; ok {
			if hv, ok := ex.tryHavocLike(st, old, "loopcell"); ok {
				st.Cells[c] = hv
			}
		}
	}
	if regions {
		for r, m := range st.Mem {
			st.Mem[r] = ex.fresh("loopmem", m.S)
		}
	} else if len(regionSet) > 0 {
		var rs []*Region
		for r := range regionSet {
			rs = append(rs, r)
		}
		sort.Slice(rs, func(i, j int) bool { return rs[i].id < rs[j].id })
		for _, r := range rs {
			if m, ok := st.Mem[r]; ok {
				st.Mem[r] = ex.fresh("loopmem", m.S)
			}
		}
	}
	if big {
		st.Big = ex.fresh("loopheap", st.Big.S)
	}
	// ghost state the loop body may change (through the contracts of the functions it calls)
	var gns []string
	for gn := range st.Ghost {
		if ghostsAll || ghosts[gn] {
			gns = append(gns, gn)
		}
	}
	sort.Strings(gns)
	for _, gn := range gns {
		st.Ghost[gn] = ex.fresh("loopgh_"+gn, st.Ghost[gn].S)
	}
	env = ex.invEnv(st, fr)
	env.loopOld = fr.LoopSnap[pc.ord]
	for _, c := range pc.spec.Invariants {
		st.assume(env.termBool(c.Expr))
	}
	return false
}

// allocEscapes: may the address of this local (or of a part of it) be seen by a callee or stored somewhere?
func allocEscapes(al *ssa.Alloc) bool {
	var check func(v ssa.Value, depth int) bool
	check = func(v ssa.Value, depth int) bool {
		if depth > 6 {
			return true
		}
		refs := v.Referrers()
		if refs == nil {
			return true
		}
		for _, r := range *refs {
			switch x := r.(type) {
			case *ssa.UnOp, *ssa.DebugRef:
			case *ssa.Store:
				if x.Val == v {
					return true
				}
			case *ssa.FieldAddr:
				if check(x, depth+1) {
					return true
				}
			case *ssa.IndexAddr:
				if check(x, depth+1) {
					return true
				}
			default:
				return true
			}
		}
		return false
	}
	return check(al, 0)
}

// tryHavocLike: a fresh symbolic value of the same shape; a shape that cannot be havocked makes the function
// rejected (leaving it unchanged would be unsound)
func (ex *Exec) tryHavocLike(st *State, v Val, name string) (Val, bool) {
	switch x := v.(type) {
	case IfaceV:
		if x.Conc == nil && x.Sym == nil {
			// a nil interface may have been replaced by anything
		}
		k := ex.fresh(name+"kind", IntSort)
		st.assume(IGe(k, IntC(0)))
		return IfaceV{Kind: k, Sym: &IfaceSym{Name: fmt.Sprintf("%s_%d", name, ex.nfreshNext()), Payloads: map[string]Val{}, Ghosts: map[string]*Term{}}}, true
	case StructV:
		nf := make([]Val, len(x.F))
		for i, f := range x.F {
			hv, ok := ex.tryHavocLike(st, f, name)
			if !ok {
				return nil, false
			}
			nf[i] = hv
		}
		return StructV{Typ: x.Typ, F: nf}, true
	case ClosureV, ArrayV, TupleV:
		// function values and fixed arrays held in cells: arrays live in regions (havocked with the memory)
		return v, true
	case StringV:
		return StringV{Id: ex.fresh(name+"str", IntSort), Len: ex.fresh(name+"slen", ex.idxSort())}, true
	case PtrV:
		if x.K == PCell || x.K == PNil || x.K == POpaque || x.K == PElem {
			// pointers to other modelled objects: kept (re-pointing inside loops is not modelled; the pointee
			// itself is havocked as a cell of its own)
			return v, true
		}
	}
	return ex.havocLike(st, v, name), true
}

// callGhostEffects adds to set the ghost variables a call may change, following bodies that are executed inline;
// it returns true when that cannot be told (unknown callee): then every ghost variable is havocked.
func (ex *Exec) callGhostEffects(st *State, cc *ssa.CallCommon, set map[string]bool, depth int) (all bool) {
	addDeclared := func(c *Contract) {
		for gn := range st.Ghost {
			if declaresGhost(c, gn) {
				set[gn] = true
			}
		}
		if c.Arith || !c.Assumed {
			// coarse (loop cut only): any verified callee counts as possibly running an arith operation
			set["opseen"], set["opmeter"] = true, true
		}
	}
	if cc.IsInvoke() {
		c, _ := ex.ifaceContract(cc.Value.Type(), cc.Method)
		if c == nil {
			if wc, ok := ex.P.CS.Funcs["*."+cc.Method.Name()]; ok {
				c = wc
			}
		}
		if c == nil {
			return true
		}
		addDeclared(c)
		return false
	}
	if _, isB := cc.Value.(*ssa.Builtin); isB {
		return false
	}
	f := cc.StaticCallee()
	if f == nil {
		if mc, ok := cc.Value.(*ssa.MakeClosure); ok {
			f, _ = mc.Fn.(*ssa.Function)
		}
	}
	if f == nil {
		return true
	}
	key := funcKey(f)
	c := ex.P.CS.Funcs[key]
	if c == nil {
		if wc, ok := ex.P.CS.Funcs["*."+f.Name()]; ok && f.Parent() == nil {
			c = wc
		}
	}
	if c == nil && len(ex.P.CS.Instances[key]) > 0 {
		for _, ik := range ex.P.CS.Instances[key] {
			addDeclared(ex.P.CS.Funcs[ik])
		}
		return false
	}
	if c != nil && !c.Inline {
		addDeclared(c)
		return false
	}
	// executed inline: look into the body
	if f.Blocks == nil || depth > 8 {
		return true
	}
	for _, b := range f.Blocks {
		for _, ins := range b.Instrs {
			var inner *ssa.CallCommon
			switch y := ins.(type) {
			case *ssa.Call:
				inner = y.Common()
			case *ssa.Defer:
				inner = y.Common()
			case *ssa.Go:
				return true
			}
			if inner != nil && ex.callGhostEffects(st, inner, set, depth+1) {
				return true
			}
		}
	}
	return false
}

func bigRefOfModifies(ev *SpecEnv, e ast.Expr) *Term {
	ce, ok := e.(*ast.CallExpr)
	if !ok || exprString(ce.Fun) != "big" || len(ce.Args) != 1 {
		return nil
	}
	v, _ := ev.eval(ce.Args[0])
	if pv, ok := v.(PtrV); ok && pv.K == PBig {
		return pv.Ref
	}
	return nil
}

// useUFun declares an uninterpreted function in the queries of this function and pulls in the axioms.
func (ex *Exec) useUFun(uf *UFun) {
	if _, ok := ex.Funs["0uf_"+uf.Name]; ok {
		return
	}
	ex.Funs["0uf_"+uf.Name] = fmt.Sprintf("(declare-fun %s (%s) %s)", uf.Name, strings.Join(uf.Args, " "), uf.Res)
	if ex.axiomsDone {
		return
	}
	ex.axiomsDone = true
	// all ufuns are declared as soon as one is used (axioms may relate several)
	for _, o := range ex.P.CS.UFuns {
		ex.Funs["0uf_"+o.Name] = fmt.Sprintf("(declare-fun %s (%s) %s)", o.Name, strings.Join(o.Args, " "), o.Res)
	}
	st := &State{Cells: map[*Cell]Val{}, Mem: map[*Region]*Term{}, Ghost: map[string]*Term{}}
	st.Big = Sym("heap0", ArraySort(IntSort, IntSort))
	for _, ax := range ex.P.CS.Axioms {
		env := &SpecEnv{ex: ex, st: st, vars: map[string]Val{}}
		ex.Axioms = append(ex.Axioms, env.termBool(ax.Expr))
		ex.AxiomNames = append(ex.AxiomNames, ax.Name)
	}
}

// refineUFun records exact facts about an uninterpreted application for counterexample refinement
// (never used in proofs): bitlen and words tables for magnitudes below 2^512.
func (ex *Exec) refineUFun(name string, t *Term, args []*Term) {
	key := "refine:" + t.String()
	if ex.constSeen == nil {
		ex.constSeen = map[string]bool{}
	}
	if ex.constSeen[key] || len(args) != 1 {
		return
	}
	ex.constSeen[key] = true
	x := IAbs(args[0])
	switch name {
	case "bitlen":
		ex.Refine = append(ex.Refine, Implies(Eq(args[0], IntC(0)), Eq(t, IntC(0))))
		for k := 1; k <= 520; k++ {
			ex.Refine = append(ex.Refine, Implies(And(IGe(x, IntBig(Pow2(k-1))), ILt(x, IntBig(Pow2(k)))), Eq(t, IntC(int64(k)))))
		}
	case "words":
		ex.Refine = append(ex.Refine, Implies(Eq(args[0], IntC(0)), Eq(t, IntC(0))))
		for k := 1; k <= 8; k++ {
			ex.Refine = append(ex.Refine, Implies(And(IGe(x, IntBig(Pow2(64*(k-1)))), ILt(x, IntBig(Pow2(64*k)))), Eq(t, IntC(int64(k)))))
		}
	}
}

// mayArith: may a call of f run a dependency operation marked "arith" (directly, or through the functions it
// calls)? A static over-approximation over the SSA bodies: calls that cannot be resolved count as yes.
func (ex *Exec) mayArith(f *ssa.Function, depth int) bool {
	p := ex.P
	if p.arithMemo == nil {
		p.arithMemo = map[*ssa.Function]int{}
	}
	switch p.arithMemo[f] {
	case 1:
		return false
	case 2:
		return true
	case 3:
		return false // recursion: decided by the other calls on the cycle
	}
	p.arithMemo[f] = 3
	res := false
	c := p.CS.Funcs[funcKey(f)]
	if c == nil {
		if wc, ok := p.CS.Funcs["*."+f.Name()]; ok && f.Parent() == nil {
			c = wc
		}
	}
	if c != nil && c.Arith {
		res = true
	} else if c != nil && c.Assumed {
		res = false
	} else if f.Blocks == nil || depth > 12 {
		res = true
	} else {
	scan:
		for _, b := range f.Blocks {
			for _, ins := range b.Instrs {
				var cc *ssa.CallCommon
				switch y := ins.(type) {
				case *ssa.Call:
					cc = y.Common()
				case *ssa.Defer:
					cc = y.Common()
				case *ssa.Go:
					res = true
					break scan
				case *ssa.MakeClosure:
					if g, ok := y.Fn.(*ssa.Function); ok && ex.mayArith(g, depth+1) {
						res = true
						break scan
					}
				}
				if cc == nil {
					continue
				}
				if _, isB := cc.Value.(*ssa.Builtin); isB {
					continue
				}
				if cc.IsInvoke() {
					ic, _ := ex.ifaceContract(cc.Value.Type(), cc.Method)
					if ic == nil {
						if wc, ok := p.CS.Funcs["*."+cc.Method.Name()]; ok {
							ic = wc
						}
					}
					if ic != nil && ic.Assumed && !ic.Arith {
						continue
					}
					res = true
					break scan
				}
				g := cc.StaticCallee()
				if g == nil {
					if _, ok := cc.Value.(*ssa.MakeClosure); ok {
						continue // the closure's body was looked at where it is made
					}
					if _, ok := cc.Value.(*ssa.Parameter); ok || true {
						res = true
						break scan
					}
				}
				if ex.mayArith(g, depth+1) {
					res = true
					break scan
				}
			}
		}
	}
	if res {
		p.arithMemo[f] = 2
	} else {
		p.arithMemo[f] = 1
	}
	return res
}

// definedIn: is v the result of an instruction of one of these blocks
func definedIn(v ssa.Value, blocks []*ssa.BasicBlock) bool {
	ins, ok := v.(ssa.Instruction)
	if !ok {
		return false
	}
	for _, b := range blocks {
		if ins.Block() == b {
			return true
		}
	}
	return false
}

// assignsLocal: does any instruction of fn define a value for the source-level variable `name` (a debug reference,
// a phi or a stack slot carrying that name)?
func assignsLocal(fn *ssa.Function, name string) bool {
	for _, b := range fn.Blocks {
		for _, ins := range b.Instrs {
			switch x := ins.(type) {
			case *ssa.DebugRef:
				if id, ok := x.Expr.(*ast.Ident); ok && id.Name == name {
					return true
				}
			case *ssa.Phi:
				if x.Comment == name {
					return true
				}
			case *ssa.Alloc:
				if x.Comment == name {
					return true
				}
			}
		}
	}
	return false
}
