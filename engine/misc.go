package engine

import (
	"go/ast"
	"math/big"

	"golang.org/x/tools/go/ssa"
)

func newBig(s string) (*big.Int, bool) {
	return new(big.Int).SetString(s, 10)
}

// loopCut handles arrival at a loop header that carries invariants.
func (ex *Exec) loopCut(st *State, fr *Frame, header *ssa.BasicBlock, ord int, spec *LoopSpec, back bool) bool {
	ex.reject("loop invariants not supported yet")
	return true
}

func bigRefOfModifies(ev *SpecEnv, e ast.Expr) *Term {
	ce, ok := e.(*ast.CallExpr)
	if !ok || exprString(ce.Fun) != "big" || len(ce.Args) != 1 {
		return nil
	}
	v, _ := ev.eval(ce.Args[0])
	if pv, ok := v.(PtrV); ok && pv.K == PBig {
		return pv.Ref
	}
	return nil
}
