package engine

import (
	"fmt"
	"go/ast"
	"math/big"
	"strings"

	"golang.org/x/tools/go/ssa"
)

func newBig(s string) (*big.Int, bool) {
	return new(big.Int).SetString(s, 10)
}

// loopCut handles arrival at a loop header that carries invariants.
func (ex *Exec) loopCut(st *State, fr *Frame, header *ssa.BasicBlock, ord int, spec *LoopSpec, back bool) bool {
	ex.reject("loop invariants not supported yet")
	return true
}

func bigRefOfModifies(ev *SpecEnv, e ast.Expr) *Term {
	ce, ok := e.(*ast.CallExpr)
	if !ok || exprString(ce.Fun) != "big" || len(ce.Args) != 1 {
		return nil
	}
	v, _ := ev.eval(ce.Args[0])
	if pv, ok := v.(PtrV); ok && pv.K == PBig {
		return pv.Ref
	}
	return nil
}

// useUFun declares an uninterpreted function in the queries of this function and pulls in the axioms.
func (ex *Exec) useUFun(uf *UFun) {
	if _, ok := ex.Funs["0uf_"+uf.Name]; ok {
		return
	}
	ex.Funs["0uf_"+uf.Name] = fmt.Sprintf("(declare-fun %s (%s) %s)", uf.Name, strings.Join(uf.Args, " "), uf.Res)
	if ex.axiomsDone {
		return
	}
	ex.axiomsDone = true
	// all ufuns are declared as soon as one is used (axioms may relate several)
	for _, o := range ex.P.CS.UFuns {
		ex.Funs["0uf_"+o.Name] = fmt.Sprintf("(declare-fun %s (%s) %s)", o.Name, strings.Join(o.Args, " "), o.Res)
	}
	st := &State{Cells: map[*Cell]Val{}, Mem: map[*Region]*Term{}, Ghost: map[string]*Term{}}
	st.Big = Sym("heap0", ArraySort(IntSort, IntSort))
	for _, ax := range ex.P.CS.Axioms {
		env := &SpecEnv{ex: ex, st: st, vars: map[string]Val{}}
		ex.Axioms = append(ex.Axioms, env.termBool(ax.Expr))
		ex.AxiomNames = append(ex.AxiomNames, ax.Name)
	}
}
