package engine

import (
	"fmt"
	"math/big"
	"sort"
	"strings"
)

// ---------- sorts ----------

type SortKind int

const (
	SInt SortKind = iota
	SBool
	SBV
	SArray
)

type Sort struct {
	K     SortKind
	W     int   // bit-vector width
	Index *Sort // arrays
	Elem  *Sort
}

var (
	IntSort  = Sort{K: SInt}
	BoolSort = Sort{K: SBool}
)

func BVSort(w int) Sort { return Sort{K: SBV, W: w} }
func ArraySort(i, e Sort) Sort {
	return Sort{K: SArray, Index: &i, Elem: &e}
}

func (s Sort) String() string {
	switch s.K {
	case SInt:
		return "Int"
	case SBool:
		return "Bool"
	case SBV:
		return fmt.Sprintf("(_ BitVec %d)", s.W)
	case SArray:
		return fmt.Sprintf("(Array %s %s)", s.Index, s.Elem)
	}
	return "?"
}

func (s Sort) Eq(o Sort) bool { return s.String() == o.String() }

// ---------- terms ----------

type Term struct {
	Op   string // "const" (numeric literal), "sym", or an SMT operator
	Name string // for sym
	Val  *big.Int
	B    bool // for bool literals (Op "true"/"false")
	Args []*Term
	S    Sort
	str  string
}

func (t *Term) String() string {
	if t.str != "" {
		return t.str
	}
	var s string
	switch t.Op {
	case "sym":
		s = t.Name
	case "const":
		if t.S.K == SBV {
			v := new(big.Int).Set(t.Val)
			if v.Sign() < 0 {
				v.Add(v, new(big.Int).Lsh(big.NewInt(1), uint(t.S.W)))
			}
			s = fmt.Sprintf("(_ bv%s %d)", v.String(), t.S.W)
		} else if t.Val.Sign() < 0 {
			s = "(- " + new(big.Int).Neg(t.Val).String() + ")"
		} else {
			s = t.Val.String()
		}
	case "true", "false":
		s = t.Op
	default:
		var b strings.Builder
		b.WriteByte('(')
		b.WriteString(t.Op)
		for _, a := range t.Args {
			b.WriteByte(' ')
			b.WriteString(a.String())
		}
		b.WriteByte(')')
		s = b.String()
	}
	t.str = s
	return s
}

func Sym(name string, s Sort) *Term { return &Term{Op: "sym", Name: name, S: s} }

func IntC(v int64) *Term      { return &Term{Op: "const", Val: big.NewInt(v), S: IntSort} }
func IntBig(v *big.Int) *Term { return &Term{Op: "const", Val: new(big.Int).Set(v), S: IntSort} }
func BVC(v *big.Int, w int) *Term {
	m := new(big.Int).Lsh(big.NewInt(1), uint(w))
	x := new(big.Int).Mod(v, m)
	return &Term{Op: "const", Val: x, S: BVSort(w)}
}

var (
	True  = &Term{Op: "true", S: BoolSort}
	False = &Term{Op: "false", S: BoolSort}
)

func BoolC(b bool) *Term {
	if b {
		return True
	}
	return False
}

func (t *Term) IsConst() bool { return t.Op == "const" }
func (t *Term) IsTrue() bool  { return t.Op == "true" }
func (t *Term) IsFalse() bool { return t.Op == "false" }

func App(op string, s Sort, args ...*Term) *Term {
	return &Term{Op: op, Args: args, S: s}
}

func Not(a *Term) *Term {
	if a.IsTrue() {
		return False
	}
	if a.IsFalse() {
		return True
	}
	if a.Op == "not" {
		return a.Args[0]
	}
	return App("not", BoolSort, a)
}

func And(as ...*Term) *Term {
	var out []*Term
	for _, a := range as {
		if a.IsFalse() {
			return False
		}
		if a.IsTrue() {
			continue
		}
		if a.Op == "and" {
			out = append(out, a.Args...)
			continue
		}
		out = append(out, a)
	}
	if len(out) == 0 {
		return True
	}
	if len(out) == 1 {
		return out[0]
	}
	return App("and", BoolSort, out...)
}

func Or(as ...*Term) *Term {
	var out []*Term
	for _, a := range as {
		if a.IsTrue() {
			return True
		}
		if a.IsFalse() {
			continue
		}
		if a.Op == "or" {
			out = append(out, a.Args...)
			continue
		}
		out = append(out, a)
	}
	if len(out) == 0 {
		return False
	}
	if len(out) == 1 {
		return out[0]
	}
	return App("or", BoolSort, out...)
}

func Implies(a, b *Term) *Term {
	if a.IsTrue() {
		return b
	}
	if a.IsFalse() || b.IsTrue() {
		return True
	}
	return App("=>", BoolSort, a, b)
}

func Ite(c, a, b *Term) *Term {
	if c.IsTrue() {
		return a
	}
	if c.IsFalse() {
		return b
	}
	if a.String() == b.String() {
		return a
	}
	if a.S.K == SBool {
		if a.IsTrue() && b.IsFalse() {
			return c
		}
		if a.IsFalse() && b.IsTrue() {
			return Not(c)
		}
	}
	return App("ite", a.S, c, a, b)
}

func Eq(a, b *Term) *Term {
	if !a.S.Eq(b.S) {
		panic(fmt.Sprintf("Eq: sort mismatch %s:%s vs %s:%s", a, a.S, b, b.S))
	}
	if a.IsConst() && b.IsConst() {
		return BoolC(a.Val.Cmp(b.Val) == 0)
	}
	if a.S.K == SBool {
		if a.IsTrue() {
			return b
		}
		if b.IsTrue() {
			return a
		}
		if a.IsFalse() {
			return Not(b)
		}
		if b.IsFalse() {
			return Not(a)
		}
	}
	if a.String() == b.String() {
		return True
	}
	return App("=", BoolSort, a, b)
}

func Neq(a, b *Term) *Term { return Not(Eq(a, b)) }

// ----- Int arithmetic -----

func IAdd(a, b *Term) *Term {
	if a.IsConst() && b.IsConst() {
		return IntBig(new(big.Int).Add(a.Val, b.Val))
	}
	if a.IsConst() && a.Val.Sign() == 0 {
		return b
	}
	if b.IsConst() && b.Val.Sign() == 0 {
		return a
	}
	return App("+", IntSort, a, b)
}
func ISub(a, b *Term) *Term {
	if a.IsConst() && b.IsConst() {
		return IntBig(new(big.Int).Sub(a.Val, b.Val))
	}
	if b.IsConst() && b.Val.Sign() == 0 {
		return a
	}
	return App("-", IntSort, a, b)
}
func INeg(a *Term) *Term {
	if a.IsConst() {
		return IntBig(new(big.Int).Neg(a.Val))
	}
	return App("-", IntSort, a)
}
func IMul(a, b *Term) *Term {
	if a.IsConst() && b.IsConst() {
		return IntBig(new(big.Int).Mul(a.Val, b.Val))
	}
	if a.IsConst() && a.Val.Cmp(big.NewInt(1)) == 0 {
		return b
	}
	if b.IsConst() && b.Val.Cmp(big.NewInt(1)) == 0 {
		return a
	}
	if NLMulUF && !a.IsConst() && !b.IsConst() {
		// products of two symbolic terms as an uninterpreted function (option nlmul=uf): the proof then
		// rests on explicitly instantiated arithmetic lemmas only
		// canonical argument order by operator first, so that equal-but-differently-named operands
		// (pow2u(r) vs pow2u(n) with r == n) end up in the same argument position
		ka, kb := a.Op+"|"+a.String(), b.Op+"|"+b.String()
		if ka > kb {
			a, b = b, a
		}
		t := App("umul", IntSort, a, b)
		if !nlSeen[t.String()] {
			nlSeen[t.String()] = true
			NLMulComm = append(NLMulComm, Eq(t, App("umul", IntSort, b, a)))
			NLMulExact = append(NLMulExact, Eq(t, App("*", IntSort, a, b)))
		}
		return t
	}
	return App("*", IntSort, a, b)
}

// NLMulUF is set while generating the obligations of a contract with `option nlmul=uf` (VC generation is sequential).
var NLMulUF bool

// NLMulComm collects commutativity instances umul(a,b) == umul(b,a) for every product created.
var NLMulComm []*Term

// NLMulExact: umul(a,b) == a*b, used only when refining a counterexample.
var NLMulExact []*Term
var nlSeen = map[string]bool{}

// SMT-LIB div/mod (Euclidean; for positive divisor = floor)
func IDivE(a, b *Term) *Term {
	if a.IsConst() && b.IsConst() && b.Val.Sign() != 0 {
		q, _ := new(big.Int).DivMod(a.Val, b.Val, new(big.Int))
		return IntBig(q)
	}
	return App("div", IntSort, a, b)
}
func IModE(a, b *Term) *Term {
	if a.IsConst() && b.IsConst() && b.Val.Sign() != 0 {
		_, m := new(big.Int).DivMod(a.Val, b.Val, new(big.Int))
		return IntBig(m)
	}
	return App("mod", IntSort, a, b)
}
func IAbs(a *Term) *Term {
	if a.IsConst() {
		return IntBig(new(big.Int).Abs(a.Val))
	}
	return Ite(ILt(a, IntC(0)), INeg(a), a)
}

// truncating division / remainder (Go semantics), divisor assumed non-zero
func ITDiv(a, b *Term) *Term {
	if a.IsConst() && b.IsConst() && b.Val.Sign() != 0 {
		return IntBig(new(big.Int).Quo(a.Val, b.Val))
	}
	q := IDivE(IAbs(a), IAbs(b))
	neg := App("xor", BoolSort, ILt(a, IntC(0)), ILt(b, IntC(0)))
	return Ite(neg, INeg(q), q)
}
func ITRem(a, b *Term) *Term {
	if a.IsConst() && b.IsConst() && b.Val.Sign() != 0 {
		return IntBig(new(big.Int).Rem(a.Val, b.Val))
	}
	m := IModE(IAbs(a), IAbs(b))
	return Ite(ILt(a, IntC(0)), INeg(m), m)
}

// floor division
func IFDiv(a, b *Term) *Term {
	// floor(a/b): for b>0 = div; for b<0 = div(-a,-b)
	if b.IsConst() && b.Val.Sign() > 0 {
		return IDivE(a, b)
	}
	return Ite(IGt(b, IntC(0)), IDivE(a, b), IDivE(INeg(a), INeg(b)))
}

func icmp(op string, a, b *Term, f func(int) bool) *Term {
	if a.IsConst() && b.IsConst() {
		return BoolC(f(a.Val.Cmp(b.Val)))
	}
	return App(op, BoolSort, a, b)
}
func ILt(a, b *Term) *Term { return icmp("<", a, b, func(c int) bool { return c < 0 }) }
func ILe(a, b *Term) *Term { return icmp("<=", a, b, func(c int) bool { return c <= 0 }) }
func IGt(a, b *Term) *Term { return icmp(">", a, b, func(c int) bool { return c > 0 }) }
func IGe(a, b *Term) *Term { return icmp(">=", a, b, func(c int) bool { return c >= 0 }) }

func Pow2(k int) *big.Int { return new(big.Int).Lsh(big.NewInt(1), uint(k)) }

// SymRanges: value range of the input symbols of the function being verified that stand for machine integers
// (Int encoding; the range facts themselves are among the assumptions of every query). Reset per function.
var SymRanges = map[string][2]*big.Int{}

// wrap to N-bit machine integer (Int encoding)
func IWrap(a *Term, bits int, signed bool) *Term {
	m := Pow2(bits)
	if a.IsConst() {
		v := new(big.Int).Mod(a.Val, m)
		if signed && v.Cmp(Pow2(bits-1)) >= 0 {
			v.Sub(v, m)
		}
		return IntBig(v)
	}
	// wrap(x mod 2^n, n, _) == wrap(x, n, _): an earlier reduction by the same modulus is redundant
	inner := a
	if inner.Op == "sym" {
		if d, ok := CurDefs[inner.Name]; ok {
			inner = d // a named definition (conv_N): look at what it stands for
		}
	}
	if inner.Op == "mod" && len(inner.Args) == 2 && inner.Args[1].IsConst() && inner.Args[1].Val.Cmp(m) == 0 {
		a = inner.Args[0]
	}
	// a symbol whose declared machine type already lies within the target range is unchanged by the wrap
	if a.Op == "sym" {
		if r, ok := SymRanges[a.Name]; ok {
			lo, hi := big.NewInt(0), new(big.Int).Sub(m, big.NewInt(1))
			if signed {
				lo = new(big.Int).Neg(Pow2(bits - 1))
				hi = new(big.Int).Sub(Pow2(bits-1), big.NewInt(1))
			}
			if r[0].Cmp(lo) >= 0 && r[1].Cmp(hi) <= 0 {
				return a
			}
		}
	}
	if !signed {
		return IModE(a, IntBig(m))
	}
	h := IntBig(Pow2(bits - 1))
	return ISub(IModE(IAdd(a, h), IntBig(m)), h)
}

// ----- arrays -----
// Select simplifies reads over chains of stores whose indices are syntactically comparable
// (same symbolic base, constant offsets): select(store(a, b+1, v), b+1) = v, select(store(a, b+1, v), b+3) = select(a, b+3).
func Select(a, i *Term) *Term {
	ib, io, iok := linIdx(i, 0)
	// does the chain of stores end in an array that extends an older one (ArrayPrefix)? Then every step that
	// cannot be decided syntactically is unfolded into an if-then-else, so that the read reaches the old array
	// without the solver needing a quantified frame fact.
	extended := false
	for b, n := a, 0; n < 4096; n++ {
		if b.Op == "sym" {
			if d, ok := CurDefs[b.Name]; ok {
				b = d
				continue
			}
			_, extended = ArrayPrefix[b.Name]
			break
		}
		if b.Op != "store" {
			break
		}
		b = b.Args[0]
	}
	for iok || extended {
		arr := a
		if arr.Op == "sym" {
			if d, ok := CurDefs[arr.Name]; ok {
				arr = d
			}
		}
		if arr.Op == "sym" {
			// an array known to extend another one (a callee appended to a slice): reads below the old length
			// are reads of the old array
			if pf, ok := ArrayPrefix[arr.Name]; ok {
				if iok && idxBelow(ib, io, pf.Len, i.S) {
					a = pf.Old
					continue
				}
				var below *Term
				if i.S.K == SBV {
					below = BVCmp("bvult", i, pf.Len)
				} else {
					below = And(IGe(i, IntC(0)), ILt(i, pf.Len))
				}
				return Ite(below, Select(pf.Old, i), App("select", *arr.S.Elem, arr, i))
			}
			break
		}
		if arr.Op != "store" {
			break
		}
		sb, so, sok := linIdx(arr.Args[1], 0)
		if iok && sok && sb != ib && idxBelow(ib, io, arr.Args[1], i.S) {
			// a store at a position known to lie above the index read (it appends to a slice that extends the
			// array the index belongs to)
			a = arr.Args[0]
			continue
		}
		if !iok || !sok || sb != ib {
			if extended {
				return Ite(Eq(i, arr.Args[1]), arr.Args[2], Select(arr.Args[0], i))
			}
			break
		}
		if so.Cmp(io) == 0 {
			return arr.Args[2]
		}
		a = arr.Args[0]
	}
	return App("select", *a.S.Elem, a, i)
}

// CurDefs: named definitions of the function currently being processed (VC generation is sequential).
var CurDefs = map[string]*Term{}

// ArrayPrefix: arrays (fresh symbols) known to agree with an older array on all indices below Len (the absolute
// index where the old slice ended); the corresponding quantified fact is among the path's assumptions as well.
type arrayPrefix struct{ Old, Len *Term }

var ArrayPrefix = map[string]arrayPrefix{}

// BaseLowerBound: index terms whose symbolic base (as computed by linIdx) is known to be at least the given term
// (the end of a slice that was extended: off + newLen >= off + oldLen). Reset per function with ArrayPrefix.
var BaseLowerBound = map[string]*Term{}

// idxBelow: is the index (base ib, offset io) provably below term t? Decided syntactically: same base and smaller
// offset, or t's base has a registered lower bound below which the index lies (transitively). Offsets are small
// non-negative constants and slice positions stay below 2^62, so no wrap-around is involved.
func idxBelow(ib string, io *big.Int, t *Term, s Sort) bool {
	limit := Pow2(40)
	if io.Sign() < 0 || io.Cmp(limit) > 0 {
		return false
	}
	for depth := 0; depth < 12; depth++ {
		tb, to, ok := linIdx(t, 0)
		if !ok || to.Sign() < 0 || to.Cmp(limit) > 0 {
			return false
		}
		if tb == ib {
			return io.Cmp(to) < 0
		}
		lb, have := BaseLowerBound[tb]
		if !have {
			return false
		}
		t = lb // t = base + to >= lb + to >= lb
	}
	return false
}

// linIdx decomposes an index term into a symbolic base and a constant offset.
func linIdx(t *Term, depth int) (string, *big.Int, bool) {
	if depth > 40 {
		return "", nil, false
	}
	norm := func(v *big.Int) *big.Int {
		if t.S.K == SBV {
			return new(big.Int).Mod(v, Pow2(t.S.W))
		}
		return v
	}
	switch t.Op {
	case "const":
		return "", norm(t.Val), true
	case "sym":
		if d, ok := CurDefs[t.Name]; ok {
			return linIdx(d, depth+1)
		}
		return t.Name, big.NewInt(0), true
	case "bvadd", "+":
		base := ""
		off := big.NewInt(0)
		for _, a := range t.Args {
			b, o, ok := linIdx(a, depth+1)
			if !ok {
				return "", nil, false
			}
			if b != "" {
				if base != "" {
					if base > b {
						base, b = b, base
					}
					base = base + "+" + b
				} else {
					base = b
				}
			}
			off = new(big.Int).Add(off, o)
		}
		return base, norm(off), true
	case "bvsub", "-":
		if len(t.Args) == 2 {
			b, o, ok := linIdx(t.Args[0], depth+1)
			b2, o2, ok2 := linIdx(t.Args[1], depth+1)
			if ok && ok2 && b2 == "" {
				return b, norm(new(big.Int).Sub(o, o2)), true
			}
		}
	}
	return t.String(), big.NewInt(0), true
}
func Store(a, i, v *Term) *Term {
	return App("store", a.S, a, i, v)
}

// ----- bit-vectors -----
func BVBin(op string, a, b *Term) *Term {
	if !a.S.Eq(b.S) {
		panic(fmt.Sprintf("BVBin %s: sort mismatch %s vs %s", op, a.S, b.S))
	}
	if a.IsConst() && b.IsConst() {
		switch op {
		case "bvadd":
			return BVC(new(big.Int).Add(a.Val, b.Val), a.S.W)
		case "bvsub":
			return BVC(new(big.Int).Sub(a.Val, b.Val), a.S.W)
		case "bvmul":
			return BVC(new(big.Int).Mul(a.Val, b.Val), a.S.W)
		case "bvand":
			return BVC(new(big.Int).And(a.Val, b.Val), a.S.W)
		case "bvor":
			return BVC(new(big.Int).Or(a.Val, b.Val), a.S.W)
		case "bvxor":
			return BVC(new(big.Int).Xor(a.Val, b.Val), a.S.W)
		}
	}
	if (op == "bvadd" || op == "bvor" || op == "bvxor") && a.IsConst() && a.Val.Sign() == 0 {
		return b
	}
	if (op == "bvadd" || op == "bvsub" || op == "bvor" || op == "bvxor") && b.IsConst() && b.Val.Sign() == 0 {
		return a
	}
	return App(op, a.S, a, b)
}
func BVCmp(op string, a, b *Term) *Term {
	if !a.S.Eq(b.S) {
		panic(fmt.Sprintf("BVCmp %s: sort mismatch %s vs %s (%s, %s)", op, a.S, b.S, a, b))
	}
	return App(op, BoolSort, a, b)
}
func BVExtract(hi, lo int, a *Term) *Term {
	if lo == 0 && hi == a.S.W-1 {
		return a
	}
	return App(fmt.Sprintf("(_ extract %d %d)", hi, lo), BVSort(hi-lo+1), a)
}
func BVZeroExt(n int, a *Term) *Term {
	if n == 0 {
		return a
	}
	return App(fmt.Sprintf("(_ zero_extend %d)", n), BVSort(a.S.W+n), a)
}
func BVSignExt(n int, a *Term) *Term {
	if n == 0 {
		return a
	}
	return App(fmt.Sprintf("(_ sign_extend %d)", n), BVSort(a.S.W+n), a)
}
func BVConcat(a, b *Term) *Term {
	return App("concat", BVSort(a.S.W+b.S.W), a, b)
}

// ---------- symbol collection ----------

func CollectSyms(t *Term, out map[string]Sort) {
	var walk func(*Term)
	seen := map[*Term]bool{}
	walk = func(x *Term) {
		if seen[x] {
			return
		}
		seen[x] = true
		if x.Op == "sym" {
			out[x.Name] = x.S
			return
		}
		for _, a := range x.Args {
			walk(a)
		}
	}
	walk(t)
}

// Query is one satisfiability question: expected answer is part of the obligation.
type Query struct {
	Logic    string
	Decls    map[string]Sort // uninterpreted constants
	Funs     []string        // raw declare-fun / define-fun lines (spec functions, axioms)
	Defs     []Def           // ordered named definitions
	Asserts  []*Term
	GetVals  []string // symbols whose model values are wanted
	Preamble []string
}

type Def struct {
	Name string
	S    Sort
	T    *Term
}

func (q *Query) SMT(produceModels bool) string {
	var b strings.Builder
	if produceModels {
		b.WriteString("(set-option :produce-models true)\n")
	}
	if q.Logic != "" {
		fmt.Fprintf(&b, "(set-logic %s)\n", q.Logic)
	}
	for _, p := range q.Preamble {
		b.WriteString(p)
		b.WriteByte('\n')
	}
	// prune definitions to those reachable from the asserts
	need := map[string]Sort{}
	for _, a := range q.Asserts {
		CollectSyms(a, need)
	}
	defIdx := map[string]int{}
	for i, d := range q.Defs {
		defIdx[d.Name] = i
	}
	used := make([]bool, len(q.Defs))
	// model-extraction aliases: a wanted def all of whose symbols are already needed is included
	if produceModels {
		for _, g := range q.GetVals {
			if i, ok := defIdx[g]; ok {
				if _, already := need[g]; already {
					continue
				}
				ds := map[string]Sort{}
				CollectSyms(q.Defs[i].T, ds)
				all := true
				for n := range ds {
					if _, ok := need[n]; !ok {
						all = false
					}
				}
				if all {
					need[g] = q.Defs[i].S
				}
			}
		}
	}
	for i := len(q.Defs) - 1; i >= 0; i-- {
		d := q.Defs[i]
		if _, ok := need[d.Name]; ok {
			used[i] = true
			CollectSyms(d.T, need)
		}
	}
	names := make([]string, 0, len(need))
	for n := range need {
		if _, isDef := defIdx[n]; isDef {
			continue
		}
		names = append(names, n)
	}
	sort.Strings(names)
	for _, n := range names {
		fmt.Fprintf(&b, "(declare-const %s %s)\n", n, need[n])
	}
	for _, f := range q.Funs {
		b.WriteString(f)
		b.WriteByte('\n')
	}
	for i, d := range q.Defs {
		if used[i] {
			fmt.Fprintf(&b, "(define-fun %s () %s %s)\n", d.Name, d.S, d.T)
		}
	}
	for _, a := range q.Asserts {
		fmt.Fprintf(&b, "(assert %s)\n", a)
	}
	b.WriteString("(check-sat)\n")
	if produceModels && len(q.GetVals) > 0 {
		var gv []string
		for _, g := range q.GetVals {
			if _, ok := need[g]; ok {
				gv = append(gv, g)
			}
		}
		if len(gv) > 0 {
			fmt.Fprintf(&b, "(get-value (%s))\n", strings.Join(gv, " "))
		}
	}
	return b.String()
}
