package engine

import (
	"encoding/json"
	"fmt"
	"os"
	"path/filepath"
	"strings"
)

// cmdReplay re-runs the real function on the input recorded in a replay file.
func cmdReplay(args []string) int {
	if len(args) < 1 {
		fmt.Fprintln(os.Stderr, "usage: cverif replay <file>")
		return 2
	}
	data, err := os.ReadFile(args[0])
	if err != nil {
		fmt.Fprintln(os.Stderr, err)
		return 2
	}
	var info struct {
		Property   string `json:"property"`
		Obligation string `json:"obligation"`
		Function   string `json:"function"`
		Replay     *struct {
			Input   string            `json:"input"`
			GoCall  string            `json:"go_call"`
			Decls   []string          `json:"harness_decls"`
			Imports map[string]string `json:"harness_imports"`
		} `json:"replay"`
		Detail string `json:"detail"`
		Kind   string `json:"kind"`
	}
	if err := json.Unmarshal(data, &info); err != nil {
		fmt.Fprintln(os.Stderr, err)
		return 2
	}
	fmt.Printf("property %s, obligation %s (%s)\n", info.Property, info.Obligation, info.Kind)
	if info.Replay == nil || info.Replay.GoCall == "" || info.Function == "" {
		fmt.Println("no concrete input recorded (no-failing-input-found); solver output is in the file")
		return 1
	}
	fmt.Printf("input: %s\ncall:  %s\n", info.Replay.Input, info.Replay.GoCall)
	pat := pkgPatternOf(info.Function)
	prog, err := LoadProgram(repoDir(), []string{pat}, nil)
	if err != nil {
		fmt.Fprintln(os.Stderr, "load:", err)
		return 2
	}
	fn := prog.FindFunc(info.Function)
	if fn == nil {
		fmt.Fprintln(os.Stderr, "function not found:", info.Function)
		return 2
	}
	work := filepath.Join(VerifDir, ".work", fmt.Sprintf("replay-%d", os.Getpid()))
	os.MkdirAll(work, 0o755)
	defer os.RemoveAll(work)
	nres := fn.Signature.Results().Len()
	// the stored call may be preceded by statements that build its arguments ("p1 := &T{...}; f(p1)")
	pre, call := "", info.Replay.GoCall
	if i := strings.LastIndex(call, "; "); i >= 0 {
		pre, call = strings.ReplaceAll(call[:i], "; ", "\n\t\t")+"\n\t\t", call[i+2:]
	}
	body := pre + call + "\n\t\treturn nil"
	if nres > 0 {
		var rs []string
		for i := 0; i < nres; i++ {
			rs = append(rs, fmt.Sprintf("r%d", i))
		}
		body = pre + strings.Join(rs, ", ") + " := " + call + "\n\t\treturn []any{" + strings.Join(rs, ", ") + "}"
	}
	outs, _, err := prog.runHarnessMulti(fn, []string{body}, info.Replay.Decls, info.Replay.Imports, work, nil)
	if err != nil {
		fmt.Fprintln(os.Stderr, err)
		return 2
	}
	fmt.Println("observed on the real code:", strings.Join(outs, "\n"))
	return 1
}
