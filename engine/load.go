package engine

import (
	"fmt"
	"go/types"
	"os"
	"sort"
	"strings"

	"golang.org/x/tools/go/packages"
	"golang.org/x/tools/go/ssa"
	"golang.org/x/tools/go/ssa/ssautil"
)

type Program struct {
	Repo     string
	Pkgs     []*packages.Package
	Prog     *ssa.Program
	SSAPkgs  []*ssa.Package
	Funcs    map[string]*ssa.Function // by String()
	CS       *ContractSet
	arithMemo map[*ssa.Function]int // mayArith: 1 no, 2 yes, 3 in progress
	typeTags map[string]int
	tagTypes map[int]types.Type
	named    []types.Type // all named concrete types (T and *T) in loaded cadence packages
	implCache map[string][]types.Type
	Consts   map[string]string // dumped global values (global name -> decimal), see constdump.go
	BigGlobals map[string]int   // global name -> ref id
}

const cadenceMod = "github.com/onflow/cadence"

func LoadProgram(repo string, patterns []string, overlay map[string][]byte) (*Program, error) {
	cfg := &packages.Config{
		Mode:       packages.LoadAllSyntax,
		Dir:        repo,
		BuildFlags: []string{"-tags=verif"},
		Env:        append(os.Environ(), "GOFLAGS=-mod=mod", "GOPROXY=off"),
		Overlay:    overlay,
	}
	pkgs, err := packages.Load(cfg, patterns...)
	if err != nil {
		return nil, err
	}
	var errs []string
	packages.Visit(pkgs, nil, func(p *packages.Package) {
		for _, e := range p.Errors {
			errs = append(errs, e.Error())
		}
	})
	if len(errs) > 0 {
		if len(errs) > 10 {
			errs = errs[:10]
		}
		return nil, fmt.Errorf("load errors:\n%s", strings.Join(errs, "\n"))
	}
	prog, spkgs := ssautil.AllPackages(pkgs, ssa.InstantiateGenerics)
	// source-level names (needed by loop invariants) only for the repository's own packages
	for _, sp := range prog.AllPackages() {
		if strings.HasPrefix(sp.Pkg.Path(), cadenceMod) {
			sp.SetDebugMode(true)
		}
	}
	prog.Build()
	p := &Program{Repo: repo, Pkgs: pkgs, Prog: prog, SSAPkgs: spkgs, Funcs: map[string]*ssa.Function{},
		typeTags: map[string]int{}, tagTypes: map[int]types.Type{}, implCache: map[string][]types.Type{},
		Consts: map[string]string{}, BigGlobals: map[string]int{}}
	for fn := range ssautil.AllFunctions(prog) {
		p.Funcs[fn.String()] = fn
	}
	// collect named types of cadence packages, deterministic order
	var all []*ssa.Package
	for _, sp := range prog.AllPackages() {
		if strings.HasPrefix(sp.Pkg.Path(), cadenceMod) {
			all = append(all, sp)
		}
	}
	sort.Slice(all, func(i, j int) bool { return all[i].Pkg.Path() < all[j].Pkg.Path() })
	for _, sp := range all {
		names := make([]string, 0, len(sp.Members))
		for n := range sp.Members {
			names = append(names, n)
		}
		sort.Strings(names)
		for _, n := range names {
			if t, ok := sp.Members[n].(*ssa.Type); ok {
				nt := t.Type()
				if _, isIface := nt.Underlying().(*types.Interface); isIface {
					continue
				}
				if named, ok := nt.(*types.Named); ok && named.TypeParams().Len() > 0 {
					// generic type: its methods exist in SSA as bodies over the type parameters (the "origin"
					// functions); they are verified as such, with values of type-parameter type opaque
					for i := 0; i < named.NumMethods(); i++ {
						if fn := prog.FuncValue(named.Method(i)); fn != nil && fn.Blocks != nil {
							if _, have := p.Funcs[fn.String()]; !have {
								p.Funcs[fn.String()] = fn
							}
						}
					}
					continue
				}
				p.named = append(p.named, nt, types.NewPointer(nt))
			}
		}
	}
	return p, nil
}

func (p *Program) TypeTag(t types.Type) int {
	k := typeKey(t)
	if id, ok := p.typeTags[k]; ok {
		return id
	}
	id := len(p.typeTags) + 1
	p.typeTags[k] = id
	p.tagTypes[id] = t
	return id
}

// Implementors returns the concrete named types (and pointers to them) in the loaded cadence
// packages that implement iface.
func (p *Program) Implementors(iface types.Type) []types.Type {
	k := typeKey(iface)
	if r, ok := p.implCache[k]; ok {
		return r
	}
	it, ok := iface.Underlying().(*types.Interface)
	if !ok {
		return nil
	}
	var out []types.Type
	for _, t := range p.named {
		if types.Implements(t, it) {
			// if T implements, *T does as well; the repository never boxes a pointer to a value type that
			// already implements the interface (values like Int8Value are stored by value), so *T is left
			// out of the universe of dynamic types in that case
			if pt, isPtr := t.(*types.Pointer); isPtr && types.Implements(pt.Elem(), it) {
				continue
			}
			out = append(out, t)
		}
	}
	p.implCache[k] = out
	return out
}

// LookupType resolves a type name used in specs: "Int8Value" relative to pkg, or "pkg.Name" by package name.
func (p *Program) LookupType(name string, rel *types.Package) types.Type {
	ptr := false
	if strings.HasPrefix(name, "*") {
		ptr = true
		name = name[1:]
	}
	var res types.Type
	if i := strings.LastIndex(name, "."); i >= 0 {
		pk, n := name[:i], name[i+1:]
		for _, sp := range p.Prog.AllPackages() {
			if sp.Pkg.Path() == pk || sp.Pkg.Name() == pk {
				if o := sp.Pkg.Scope().Lookup(n); o != nil {
					if tn, ok := o.(*types.TypeName); ok {
						res = tn.Type()
						break
					}
				}
			}
		}
	} else if rel != nil {
		if o := rel.Scope().Lookup(name); o != nil {
			if tn, ok := o.(*types.TypeName); ok {
				res = tn.Type()
			}
		}
	}
	if res == nil {
		return nil
	}
	if ptr {
		return types.NewPointer(res)
	}
	return res
}

func shortType(t types.Type) string {
	s := types.TypeString(t, func(p *types.Package) string { return "" })
	r := strings.NewReplacer("*", "P", ".", "_", "/", "_", "[", "_", "]", "_", " ", "", "(", "", ")", "", "{", "", "}", "", ",", "_")
	return r.Replace(s)
}
