package engine

import (
	"fmt"
	"go/ast"
	"go/token"
	"io"
	"math/big"
	"math/bits"
	"math/rand"
	"os"
	"path/filepath"
	"sort"
	"strconv"
	"strings"

	fix "github.com/onflow/fixed-point"
)

// Axiom conformance: `cverif axioms [-n N] [-seed S]` executes the ASSUMED contracts on math/big and
// github.com/onflow/fixed-point (contracts/stdlib/math_big.spec, fixedpoint.spec) against the real libraries on
// boundary-biased random inputs, with a concrete evaluator of the spec language. This is TESTING of the trusted
// base (a mis-stated assumed contract is the likeliest way to prove something false); it is reported separately and
// never counted as proof. The lemma macros the contracts carry (L_words_*, L_shl, L_and_mask, fxok, ...) are
// evaluated as part of the postconditions.

// ---- concrete values
type cBig struct { // a *big.Int object: the live pointer and the value it had on entry
	p   *big.Int
	old *big.Int
}
type cBytes struct {
	b   []byte
	old []byte
}
type cWords struct{ w []big.Word }
type cErr struct{ name string } // dynamic type name of an error; "" = nil
type cKind struct{ name string }
type cFix struct {
	hi, lo uint64
	signed bool
}

func (f cFix) num() *big.Int {
	v := new(big.Int).Lsh(new(big.Int).SetUint64(f.hi), 64)
	v.Or(v, new(big.Int).SetUint64(f.lo))
	if f.signed && f.hi>>63 == 1 {
		v.Sub(v, new(big.Int).Lsh(big.NewInt(1), 128))
	}
	return v
}

type cEnv struct {
	cs   *ContractSet
	vars map[string]any
	old  bool
}

type axErr struct{ msg string }

func axFail(f string, a ...any) { panic(axErr{fmt.Sprintf(f, a...)}) }

func (e *cEnv) intOf(v any, what string) *big.Int {
	switch x := v.(type) {
	case *big.Int:
		return x
	case int:
		return big.NewInt(int64(x))
	}
	axFail("expected integer for %s, got %T", what, v)
	return nil
}

func (e *cEnv) boolOf(v any, what string) bool {
	b, ok := v.(bool)
	if !ok {
		axFail("expected boolean for %s, got %T", what, v)
	}
	return b
}

func (e *cEnv) eval(x ast.Expr) any {
	switch n := x.(type) {
	case *ast.ParenExpr:
		return e.eval(n.X)
	case *ast.BasicLit:
		if n.Kind == token.INT {
			v, _ := new(big.Int).SetString(strings.ReplaceAll(n.Value, "_", ""), 0)
			return v
		}
		if n.Kind == token.STRING {
			s, _ := strconv.Unquote(n.Value)
			return s
		}
	case *ast.Ident:
		switch n.Name {
		case "true":
			return true
		case "false":
			return false
		case "nil":
			return nil
		}
		v, ok := e.vars[n.Name]
		if !ok {
			axFail("unknown identifier %s", n.Name)
		}
		return v
	case *ast.SelectorExpr:
		if id, ok := n.X.(*ast.Ident); ok {
			if _, isVar := e.vars[id.Name]; !isVar {
				return cKind{n.Sel.Name} // a qualified type name (fixedPoint.UnderflowError)
			}
		}
		axFail("unsupported selector %s", exprString(x))
	case *ast.UnaryExpr:
		v := e.eval(n.X)
		switch n.Op {
		case token.NOT:
			return !e.boolOf(v, "!")
		case token.SUB:
			return new(big.Int).Neg(e.intOf(v, "-"))
		case token.ADD:
			return v
		}
	case *ast.BinaryExpr:
		return e.binary(n)
	case *ast.IndexExpr:
		s := e.eval(n.X)
		i := int(e.intOf(e.eval(n.Index), "index").Int64())
		switch t := s.(type) {
		case *cBytes:
			b := t.b
			if e.old {
				b = t.old
			}
			if i < 0 || i >= len(b) {
				return big.NewInt(0) // guarded reads beyond the length: arbitrary
			}
			return big.NewInt(int64(b[i]))
		case *cWords:
			if i < 0 || i >= len(t.w) {
				return big.NewInt(0)
			}
			return new(big.Int).SetUint64(uint64(t.w[i]))
		}
		axFail("index of %T", s)
	case *ast.CallExpr:
		return e.call(n)
	}
	axFail("unsupported expression %s (%T)", exprString(x), x)
	return nil
}

func (e *cEnv) binary(n *ast.BinaryExpr) any {
	switch n.Op {
	case token.LAND:
		if !e.boolOf(e.eval(n.X), "&&") {
			return false
		}
		return e.boolOf(e.eval(n.Y), "&&")
	case token.LOR:
		if e.boolOf(e.eval(n.X), "||") {
			return true
		}
		return e.boolOf(e.eval(n.Y), "||")
	}
	a, b := e.eval(n.X), e.eval(n.Y)
	if n.Op == token.EQL || n.Op == token.NEQ {
		eq := e.equal(a, b)
		if n.Op == token.NEQ {
			return !eq
		}
		return eq
	}
	x, y := e.intOf(a, exprString(n.X)), e.intOf(b, exprString(n.Y))
	switch n.Op {
	case token.ADD:
		return new(big.Int).Add(x, y)
	case token.SUB:
		return new(big.Int).Sub(x, y)
	case token.MUL:
		return new(big.Int).Mul(x, y)
	case token.QUO:
		if y.Sign() == 0 {
			return big.NewInt(0)
		}
		return new(big.Int).Quo(x, y)
	case token.REM:
		if y.Sign() == 0 {
			return big.NewInt(0)
		}
		return new(big.Int).Rem(x, y)
	case token.LSS:
		return x.Cmp(y) < 0
	case token.LEQ:
		return x.Cmp(y) <= 0
	case token.GTR:
		return x.Cmp(y) > 0
	case token.GEQ:
		return x.Cmp(y) >= 0
	case token.SHL:
		return new(big.Int).Lsh(x, uint(y.Int64()))
	}
	axFail("unsupported operator %s", n.Op)
	return nil
}

func (e *cEnv) equal(a, b any) bool {
	if a == nil || b == nil {
		o := a
		if a == nil {
			o = b
		}
		switch t := o.(type) {
		case nil:
			return true
		case *cBig:
			return t == nil || t.p == nil
		case cErr:
			return t.name == ""
		case *cBytes:
			return t == nil || t.b == nil
		}
		return false
	}
	switch x := a.(type) {
	case bool:
		return x == e.boolOf(b, "==")
	case *cBig:
		y, ok := b.(*cBig)
		return ok && x.p == y.p // pointer identity
	case cKind:
		if y, ok := b.(cKind); ok {
			return x.name == y.name
		}
		if y, ok := b.(cErr); ok {
			return x.name == y.name
		}
	case cErr:
		if y, ok := b.(cKind); ok {
			return x.name == y.name
		}
	}
	return e.intOf(a, "==").Cmp(e.intOf(b, "==")) == 0
}

func two(k int64) *big.Int { return new(big.Int).Lsh(big.NewInt(1), uint(k)) }

func floorDiv(x, y *big.Int) *big.Int {
	q, m := new(big.Int).QuoRem(x, y, new(big.Int))
	if m.Sign() != 0 && (m.Sign() < 0) != (y.Sign() < 0) {
		q.Sub(q, big.NewInt(1))
	}
	return q
}

// two's-complement bitwise operation on integers of any sign, computed bytewise at a sufficient width
func tcOp(op string, x, y *big.Int) *big.Int {
	w := x.BitLen()
	if y.BitLen() > w {
		w = y.BitLen()
	}
	nb := w/8 + 2
	mod := two(int64(8 * nb))
	enc := func(v *big.Int) []byte {
		u := new(big.Int).Mod(v, mod)
		return u.FillBytes(make([]byte, nb))
	}
	a, b := enc(x), enc(y)
	r := make([]byte, nb)
	for i := range r {
		switch op {
		case "and":
			r[i] = a[i] & b[i]
		case "or":
			r[i] = a[i] | b[i]
		default:
			r[i] = a[i] ^ b[i]
		}
	}
	u := new(big.Int).SetBytes(r)
	if r[0]&0x80 != 0 {
		u.Sub(u, mod)
	}
	return u
}

func (e *cEnv) call(n *ast.CallExpr) any {
	name := exprString(n.Fun)
	arg := func(i int) any { return e.eval(n.Args[i]) }
	iarg := func(i int) *big.Int { return e.intOf(arg(i), name) }
	switch name {
	case "imp":
		if !e.boolOf(arg(0), name) {
			return true
		}
		return e.boolOf(arg(1), name)
	case "iff":
		return e.boolOf(arg(0), name) == e.boolOf(arg(1), name)
	case "ite":
		if e.boolOf(arg(0), name) {
			return arg(1)
		}
		return arg(2)
	case "old":
		sub := *e
		sub.old = true
		return sub.eval(n.Args[0])
	case "pow2":
		return two(iarg(0).Int64())
	case "ispow2":
		c := iarg(0)
		return c.Sign() > 0 && new(big.Int).And(c, new(big.Int).Sub(c, big.NewInt(1))).Sign() == 0
	case "pow2n":
		k := iarg(0)
		if k.Sign() < 0 || !k.IsInt64() || k.Int64() > 100000 {
			return big.NewInt(1)
		}
		return two(k.Int64())
	case "abs":
		return new(big.Int).Abs(iarg(0))
	case "min", "max":
		a, b := iarg(0), iarg(1)
		if (a.Cmp(b) < 0) == (name == "min") {
			return a
		}
		return b
	case "clamp":
		v, lo, hi := iarg(0), iarg(1), iarg(2)
		if v.Cmp(lo) < 0 {
			return lo
		}
		if v.Cmp(hi) > 0 {
			return hi
		}
		return v
	case "inrange":
		v := iarg(0)
		return v.Cmp(iarg(1)) >= 0 && v.Cmp(iarg(2)) <= 0
	case "tdiv", "trem", "fdiv", "ediv", "emod":
		x, y := iarg(0), iarg(1)
		if y.Sign() == 0 {
			return big.NewInt(0)
		}
		switch name {
		case "tdiv":
			return new(big.Int).Quo(x, y)
		case "trem":
			return new(big.Int).Rem(x, y)
		case "fdiv":
			return floorDiv(x, y)
		case "ediv":
			q, _ := new(big.Int).DivMod(x, y, new(big.Int))
			return q
		default:
			_, m := new(big.Int).DivMod(x, y, new(big.Int))
			return m
		}
	case "wrap":
		v, bits := iarg(0), iarg(1).Int64()
		signed := e.boolOf(arg(2), name)
		m := new(big.Int).Mod(v, two(bits))
		if signed && m.Cmp(two(bits-1)) >= 0 {
			m.Sub(m, two(bits))
		}
		return m
	case "len":
		switch t := arg(0).(type) {
		case *cBytes:
			if t == nil {
				return big.NewInt(0)
			}
			return big.NewInt(int64(len(t.b)))
		case *cWords:
			return big.NewInt(int64(len(t.w)))
		}
		axFail("len of %T", arg(0))
	case "big":
		o, ok := arg(0).(*cBig)
		if !ok || o == nil || o.p == nil {
			return big.NewInt(0)
		}
		if e.old {
			return o.old
		}
		return new(big.Int).Set(o.p)
	case "fresh":
		o, ok := arg(0).(*cBig)
		if !ok || o == nil {
			return false
		}
		for k, v := range e.vars {
			if k == "result" || k == "result0" || k == "res" {
				continue
			}
			if p, isP := v.(*cBig); isP && p != nil && p.p == o.p {
				return false
			}
		}
		return true
	case "num":
		switch t := arg(0).(type) {
		case cFix:
			return t.num()
		case *big.Int:
			return t
		}
		axFail("num of %T", arg(0))
	case "kind":
		if er, ok := arg(0).(cErr); ok {
			return cKind{er.name}
		}
		axFail("kind of %T", arg(0))
	case "beval", "bevalue":
		b, ok := arg(0).(*cBytes)
		if !ok || b == nil {
			return big.NewInt(0)
		}
		src := b.b
		if e.old {
			src = b.old
		}
		v := new(big.Int)
		for _, by := range src {
			v.Mul(v, big.NewInt(256))
			v.Add(v, big.NewInt(int64(by)))
		}
		return v
	case "forall":
		id := n.Args[0].(*ast.Ident).Name
		lo, hi := iarg(1).Int64(), iarg(2).Int64()
		save, had := e.vars[id]
		defer func() {
			if had {
				e.vars[id] = save
			} else {
				delete(e.vars, id)
			}
		}()
		for i := lo; i < hi; i++ {
			e.vars[id] = big.NewInt(i)
			if !e.boolOf(e.eval(n.Args[3]), name) {
				return false
			}
		}
		return true
	// uninterpreted functions of the specs, with their intended meaning
	case "words":
		return big.NewInt(int64(len(new(big.Int).Abs(iarg(0)).Bits())))
	case "bitlen":
		return big.NewInt(int64(new(big.Int).Abs(iarg(0)).BitLen()))
	case "tcand":
		return tcOp("and", iarg(0), iarg(1))
	case "tcor":
		return tcOp("or", iarg(0), iarg(1))
	case "tcxor":
		return tcOp("xor", iarg(0), iarg(1))
	case "shl", "shr":
		k := iarg(1)
		if k.Sign() < 0 || !k.IsInt64() || k.Int64() > 100000 {
			axFail("shift amount outside the evaluator's range")
		}
		if name == "shl" {
			return new(big.Int).Mul(iarg(0), two(k.Int64()))
		}
		return floorDiv(iarg(0), two(k.Int64()))
	case "ipow":
		x, y := iarg(0), iarg(1)
		if y.Sign() < 0 || !y.IsInt64() || y.Int64() > 1000 {
			axFail("exponent outside the evaluator's range")
		}
		r := big.NewInt(1)
		for i := int64(0); i < y.Int64(); i++ {
			r.Mul(r, x)
		}
		return r
	}
	if t := basicTypeByName(name); t != nil && len(n.Args) == 1 {
		bits, signed, _ := intInfo(t)
		v := new(big.Int).Mod(iarg(0), two(int64(bits)))
		if signed && v.Cmp(two(int64(bits-1))) >= 0 {
			v.Sub(v, two(int64(bits)))
		}
		return v
	}
	if sf, ok := e.cs.SpecFuns[name]; ok {
		if len(sf.Params) != len(n.Args) {
			axFail("spec function %s: arity", name)
		}
		sub := &cEnv{cs: e.cs, vars: map[string]any{}, old: e.old}
		for i, p := range sf.Params {
			sub.vars[p] = arg(i)
		}
		return sub.eval(sf.Expr)
	}
	axFail("unknown spec function %s", name)
	return nil
}

// ---- input generation
// axU64: a 64-bit operand, biased towards the ends of the range and carries
func axU64(r *rand.Rand) uint64 {
	switch r.Intn(6) {
	case 0:
		return 0
	case 1:
		return ^uint64(0)
	case 2:
		return ^uint64(0) - uint64(r.Intn(3))
	case 3:
		return uint64(r.Intn(3))
	case 4:
		return 1 << 63
	}
	return r.Uint64()
}

func axBig(r *rand.Rand) *big.Int {
	var v *big.Int
	switch r.Intn(4) {
	case 0:
		small := []int64{0, 1, 2, 3, 7, 10, 255, 256}
		v = big.NewInt(small[r.Intn(len(small))])
	case 1, 2:
		ks := []int64{7, 8, 15, 16, 31, 32, 63, 64, 65, 127, 128, 129, 191, 192, 255, 256, 257, 511, 512, 700}
		v = two(ks[r.Intn(len(ks))])
		v.Add(v, big.NewInt(int64(r.Intn(5)-2)))
	default:
		n := r.Intn(640) + 1
		v = new(big.Int).Rand(r, two(int64(n)))
	}
	if r.Intn(2) == 0 {
		v.Neg(v)
	}
	return v
}

func axObj(v *big.Int) *cBig { return &cBig{p: new(big.Int).Set(v), old: new(big.Int).Set(v)} }

type axCase struct {
	key string
	run func(r *rand.Rand, env map[string]any) (call func()) // fills env with the arguments; call runs the real function and stores results
}

func snapshot(env map[string]any) {
	for _, v := range env {
		switch t := v.(type) {
		case *cBig:
			if t != nil && t.p != nil {
				t.old = new(big.Int).Set(t.p)
			}
		case *cBytes:
			if t != nil {
				t.old = append([]byte{}, t.b...)
			}
		}
	}
}

func errName(err error) cErr {
	if err == nil {
		return cErr{}
	}
	s := fmt.Sprintf("%T", err)
	if i := strings.LastIndex(s, "."); i >= 0 {
		s = s[i+1:]
	}
	return cErr{s}
}

func axFix(r *rand.Rand, signed bool) cFix {
	var hi, lo uint64
	switch r.Intn(5) {
	case 0:
		hi, lo = 0, uint64(r.Intn(3))
	case 1:
		hi, lo = ^uint64(0), ^uint64(0)-uint64(r.Intn(3))
	case 2:
		hi, lo = 1<<63, uint64(r.Intn(2))
	case 3:
		hi, lo = 1<<63-1, ^uint64(0)-uint64(r.Intn(2))
	default:
		sh := uint(r.Intn(64))
		hi, lo = r.Uint64()>>sh, r.Uint64()
		if r.Intn(3) == 0 {
			hi = 0
			lo >>= uint(r.Intn(64))
		}
		if signed && r.Intn(2) == 0 {
			// negate (two's complement)
			lo = ^lo + 1
			hi = ^hi
			if lo == 0 {
				hi++
			}
		}
	}
	return cFix{hi, lo, signed}
}

func axCases() []axCase {
	bin := func(name string, f func(z, x, y *big.Int) *big.Int) axCase {
		return axCase{"(*math/big.Int)." + name, func(r *rand.Rand, env map[string]any) func() {
			x, y := axObj(axBig(r)), axObj(axBig(r))
			z := axObj(axBig(r))
			switch r.Intn(6) { // aliasing patterns used by the repository
			case 0:
				z = x
			case 1:
				z = y
			case 2:
				y = x
			case 3:
				z, y = x, x
			}
			env["z"], env["x"], env["y"] = z, x, y
			return func() {
				res := f(z.p, x.p, y.p)
				env["result"] = &cBig{p: res}
			}
		}}
	}
	un := func(name string, f func(z, x *big.Int) *big.Int) axCase {
		return axCase{"(*math/big.Int)." + name, func(r *rand.Rand, env map[string]any) func() {
			x, z := axObj(axBig(r)), axObj(axBig(r))
			if r.Intn(3) == 0 {
				z = x
			}
			env["z"], env["x"] = z, x
			return func() { env["result"] = &cBig{p: f(z.p, x.p)} }
		}}
	}
	q := func(name string, f func(x *big.Int) any) axCase {
		return axCase{"(*math/big.Int)." + name, func(r *rand.Rand, env map[string]any) func() {
			x := axObj(axBig(r))
			env["x"] = x
			return func() { env["result"] = f(x.p) }
		}}
	}
	shift := func(name string, f func(z, x *big.Int, n uint) *big.Int) axCase {
		return axCase{"(*math/big.Int)." + name, func(r *rand.Rand, env map[string]any) func() {
			x, z := axObj(axBig(r)), axObj(axBig(r))
			if r.Intn(3) == 0 {
				z = x
			}
			ns := []int{0, 1, 7, 8, 63, 64, 65, 127, 128, 255, 256, 300, r.Intn(600)}
			n := ns[r.Intn(len(ns))]
			env["z"], env["x"], env["n"] = z, x, big.NewInt(int64(n))
			return func() { env["result"] = &cBig{p: f(z.p, x.p, uint(n))} }
		}}
	}
	cases := []axCase{
		{"math/big.NewInt", func(r *rand.Rand, env map[string]any) func() {
			v := r.Int63()
			if r.Intn(2) == 0 {
				v = -v
			}
			env["x"] = big.NewInt(v)
			return func() { env["result"] = &cBig{p: big.NewInt(v)} }
		}},
		un("Set", func(z, x *big.Int) *big.Int { return z.Set(x) }),
		{"(*math/big.Int).SetInt64", func(r *rand.Rand, env map[string]any) func() {
			z := axObj(axBig(r))
			v := int64(r.Uint64())
			env["z"], env["x"] = z, big.NewInt(v)
			return func() { env["result"] = &cBig{p: z.p.SetInt64(v)} }
		}},
		{"(*math/big.Int).SetUint64", func(r *rand.Rand, env map[string]any) func() {
			z := axObj(axBig(r))
			v := r.Uint64()
			env["z"], env["x"] = z, new(big.Int).SetUint64(v)
			return func() { env["result"] = &cBig{p: z.p.SetUint64(v)} }
		}},
		bin("Add", func(z, x, y *big.Int) *big.Int { return z.Add(x, y) }),
		bin("Sub", func(z, x, y *big.Int) *big.Int { return z.Sub(x, y) }),
		bin("Mul", func(z, x, y *big.Int) *big.Int { return z.Mul(x, y) }),
		un("Neg", func(z, x *big.Int) *big.Int { return z.Neg(x) }),
		un("Abs", func(z, x *big.Int) *big.Int { return z.Abs(x) }),
		bin("Quo", func(z, x, y *big.Int) *big.Int { return z.Quo(x, y) }),
		bin("Rem", func(z, x, y *big.Int) *big.Int { return z.Rem(x, y) }),
		bin("Div", func(z, x, y *big.Int) *big.Int { return z.Div(x, y) }),
		bin("Mod", func(z, x, y *big.Int) *big.Int { return z.Mod(x, y) }),
		bin("And", func(z, x, y *big.Int) *big.Int { return z.And(x, y) }),
		bin("Or", func(z, x, y *big.Int) *big.Int { return z.Or(x, y) }),
		bin("Xor", func(z, x, y *big.Int) *big.Int { return z.Xor(x, y) }),
		{"(*math/big.Int).Cmp", func(r *rand.Rand, env map[string]any) func() {
			x, y := axObj(axBig(r)), axObj(axBig(r))
			if r.Intn(4) == 0 {
				y = axObj(x.p)
			}
			env["x"], env["y"] = x, y
			return func() { env["result"] = big.NewInt(int64(x.p.Cmp(y.p))) }
		}},
		{"(*math/big.Int).CmpAbs", func(r *rand.Rand, env map[string]any) func() {
			x, y := axObj(axBig(r)), axObj(axBig(r))
			switch r.Intn(4) {
			case 0:
				y = axObj(x.p)
			case 1:
				y = axObj(new(big.Int).Neg(x.p))
			}
			env["x"], env["y"] = x, y
			return func() { env["result"] = big.NewInt(int64(x.p.CmpAbs(y.p))) }
		}},
		{"math/bits.Add64", func(r *rand.Rand, env map[string]any) func() {
			x, y, c := axU64(r), axU64(r), uint64(r.Intn(2))
			env["x"], env["y"], env["carry"] = new(big.Int).SetUint64(x), new(big.Int).SetUint64(y), new(big.Int).SetUint64(c)
			return func() {
				s, co := bits.Add64(x, y, c)
				env["sum"], env["carryOut"] = new(big.Int).SetUint64(s), new(big.Int).SetUint64(co)
			}
		}},
		{"math/bits.Sub64", func(r *rand.Rand, env map[string]any) func() {
			x, y, c := axU64(r), axU64(r), uint64(r.Intn(2))
			env["x"], env["y"], env["borrow"] = new(big.Int).SetUint64(x), new(big.Int).SetUint64(y), new(big.Int).SetUint64(c)
			return func() {
				d, bo := bits.Sub64(x, y, c)
				env["diff"], env["borrowOut"] = new(big.Int).SetUint64(d), new(big.Int).SetUint64(bo)
			}
		}},
		q("Sign", func(x *big.Int) any { return big.NewInt(int64(x.Sign())) }),
		q("IsInt64", func(x *big.Int) any { return x.IsInt64() }),
		q("IsUint64", func(x *big.Int) any { return x.IsUint64() }),
		q("Int64", func(x *big.Int) any { return big.NewInt(x.Int64()) }),
		q("Uint64", func(x *big.Int) any { return new(big.Int).SetUint64(x.Uint64()) }),
		q("BitLen", func(x *big.Int) any { return big.NewInt(int64(x.BitLen())) }),
		q("Bits", func(x *big.Int) any { return &cWords{w: x.Bits()} }),
		q("Bytes", func(x *big.Int) any { b := x.Bytes(); return &cBytes{b: b, old: b} }),
		shift("Lsh", func(z, x *big.Int, n uint) *big.Int { return z.Lsh(x, n) }),
		shift("Rsh", func(z, x *big.Int, n uint) *big.Int { return z.Rsh(x, n) }),
		{"(*math/big.Int).SetBytes", func(r *rand.Rand, env map[string]any) func() {
			z := axObj(axBig(r))
			b := make([]byte, r.Intn(40))
			r.Read(b)
			if r.Intn(3) == 0 {
				for i := range b {
					if r.Intn(2) == 0 {
						b[i] = 0
					}
				}
			}
			buf := &cBytes{b: b, old: append([]byte{}, b...)}
			env["z"], env["buf"] = z, buf
			return func() { env["result"] = &cBig{p: z.p.SetBytes(b)} }
		}},
		{"(*math/big.Int).FillBytes", func(r *rand.Rand, env map[string]any) func() {
			x := axObj(axBig(r))
			n := (x.p.BitLen()+7)/8 + r.Intn(4)
			if r.Intn(3) == 0 {
				n = []int{16, 32, 8}[r.Intn(3)]
			}
			b := make([]byte, n)
			r.Read(b)
			buf := &cBytes{b: b, old: append([]byte{}, b...)}
			env["x"], env["buf"] = x, buf
			return func() { res := x.p.FillBytes(b); env["result"] = &cBytes{b: res, old: res} }
		}},
		{"(*math/big.Int).SetBits", func(r *rand.Rand, env map[string]any) func() {
			z := axObj(axBig(r))
			w := make([]big.Word, r.Intn(9))
			for i := range w {
				w[i] = big.Word(r.Uint64() >> uint(r.Intn(64)))
			}
			// normalised input as produced by Bits() (no leading zero words)
			for len(w) > 0 && w[len(w)-1] == 0 {
				w = w[:len(w)-1]
			}
			env["z"], env["abs"] = z, &cWords{w: w}
			return func() { env["res"] = &cBig{p: z.p.SetBits(w)}; env["result"] = env["res"] }
		}},
		{"(*math/big.Int).Exp", func(r *rand.Rand, env map[string]any) func() {
			z := axObj(axBig(r))
			x := axObj(big.NewInt(int64(r.Intn(12))))
			if r.Intn(2) == 0 {
				x = axObj(big.NewInt(10))
			}
			y := axObj(big.NewInt(int64(r.Intn(30))))
			env["z"], env["x"], env["y"], env["m"] = z, x, y, (*cBig)(nil)
			return func() { env["result"] = &cBig{p: z.p.Exp(x.p, y.p, nil)} }
		}},
	}
	// github.com/onflow/fixed-point
	mode := func(r *rand.Rand) (fix.RoundingMode, *big.Int) {
		m := r.Intn(4)
		return fix.RoundingMode(m), big.NewInt(int64(m))
	}
	f128 := func(c cFix) fix.Fix128 { return fix.NewFix128(c.hi, c.lo) }
	u128 := func(c cFix) fix.UFix128 { return fix.NewUFix128(c.hi, c.lo) }
	out128 := func(env map[string]any, hi, lo uint64, signed bool, err error) {
		env["res"], env["err"] = cFix{hi, lo, signed}, errName(err)
	}
	pre := "(github.com/onflow/fixed-point."
	cases = append(cases,
		axCase{pre + "Fix128).Add", func(r *rand.Rand, env map[string]any) func() {
			a, b := axFix(r, true), axFix(r, true)
			env["a"], env["b"] = a, b
			return func() { v, err := f128(a).Add(f128(b)); out128(env, uint64(v.Hi), uint64(v.Lo), true, err) }
		}},
		axCase{pre + "Fix128).Sub", func(r *rand.Rand, env map[string]any) func() {
			a, b := axFix(r, true), axFix(r, true)
			env["a"], env["b"] = a, b
			return func() { v, err := f128(a).Sub(f128(b)); out128(env, uint64(v.Hi), uint64(v.Lo), true, err) }
		}},
		axCase{pre + "Fix128).Neg", func(r *rand.Rand, env map[string]any) func() {
			a := axFix(r, true)
			env["a"] = a
			return func() { v, err := f128(a).Neg(); out128(env, uint64(v.Hi), uint64(v.Lo), true, err) }
		}},
		axCase{pre + "Fix128).Mod", func(r *rand.Rand, env map[string]any) func() {
			a, b := axFix(r, true), axFix(r, true)
			env["a"], env["b"] = a, b
			return func() { v, err := f128(a).Mod(f128(b)); out128(env, uint64(v.Hi), uint64(v.Lo), true, err) }
		}},
		axCase{pre + "Fix128).FMD", func(r *rand.Rand, env map[string]any) func() {
			a, b, c := axFix(r, true), axFix(r, true), axFix(r, true)
			m, mi := mode(r)
			env["a"], env["b"], env["c"], env["round"] = a, b, c, mi
			return func() { v, err := f128(a).FMD(f128(b), f128(c), m); out128(env, uint64(v.Hi), uint64(v.Lo), true, err) }
		}},
		axCase{pre + "UFix128).Add", func(r *rand.Rand, env map[string]any) func() {
			a, b := axFix(r, false), axFix(r, false)
			env["a"], env["b"] = a, b
			return func() { v, err := u128(a).Add(u128(b)); out128(env, uint64(v.Hi), uint64(v.Lo), false, err) }
		}},
		axCase{pre + "UFix128).Sub", func(r *rand.Rand, env map[string]any) func() {
			a, b := axFix(r, false), axFix(r, false)
			env["a"], env["b"] = a, b
			return func() { v, err := u128(a).Sub(u128(b)); out128(env, uint64(v.Hi), uint64(v.Lo), false, err) }
		}},
		axCase{pre + "UFix128).Mod", func(r *rand.Rand, env map[string]any) func() {
			a, b := axFix(r, false), axFix(r, false)
			env["a"], env["b"] = a, b
			return func() { v, err := u128(a).Mod(u128(b)); out128(env, uint64(v.Hi), uint64(v.Lo), false, err) }
		}},
		axCase{pre + "UFix128).FMD", func(r *rand.Rand, env map[string]any) func() {
			a, b, c := axFix(r, false), axFix(r, false), axFix(r, false)
			m, mi := mode(r)
			env["a"], env["b"], env["c"], env["round"] = a, b, c, mi
			return func() { v, err := u128(a).FMD(u128(b), u128(c), m); out128(env, uint64(v.Hi), uint64(v.Lo), false, err) }
		}},
		axCase{pre + "UFix128).ToUFix64", func(r *rand.Rand, env map[string]any) func() {
			a := axFix(r, false)
			if r.Intn(2) == 0 {
				a.hi = a.hi % 20000000000000000 // around the 64-bit range
			}
			m, mi := mode(r)
			env["a"], env["round"] = a, mi
			return func() { v, err := u128(a).ToUFix64(m); env["res"], env["err"] = new(big.Int).SetUint64(uint64(v)), errName(err) }
		}},
		axCase{pre + "Fix128).ToFix64", func(r *rand.Rand, env map[string]any) func() {
			a := axFix(r, true)
			m, mi := mode(r)
			env["a"], env["round"] = a, mi
			return func() { v, err := f128(a).ToFix64(m); env["res"], env["err"] = new(big.Int).SetUint64(uint64(v)), errName(err) }
		}},
		axCase{pre + "Fix64).FMD", func(r *rand.Rand, env map[string]any) func() {
			g := func() uint64 {
				switch r.Intn(4) {
				case 0:
					return uint64(r.Intn(3))
				case 1:
					return ^uint64(0) - uint64(r.Intn(3))
				case 2:
					return 1<<63 - uint64(r.Intn(2))
				}
				return r.Uint64() >> uint(r.Intn(64))
			}
			a, b, c := g(), g(), g()
			m, mi := mode(r)
			env["a"], env["b"], env["c"], env["round"] = new(big.Int).SetUint64(a), new(big.Int).SetUint64(b), new(big.Int).SetUint64(c), mi
			return func() {
				v, err := fix.Fix64(a).FMD(fix.Fix64(b), fix.Fix64(c), m)
				env["res"], env["err"] = new(big.Int).SetUint64(uint64(v)), errName(err)
			}
		}},
		axCase{pre + "UFix64).FMD", func(r *rand.Rand, env map[string]any) func() {
			g := func() uint64 {
				if r.Intn(4) == 0 {
					return uint64(r.Intn(3))
				}
				return r.Uint64() >> uint(r.Intn(64))
			}
			a, b, c := g(), g(), g()
			m, mi := mode(r)
			env["a"], env["b"], env["c"], env["round"] = new(big.Int).SetUint64(a), new(big.Int).SetUint64(b), new(big.Int).SetUint64(c), mi
			return func() {
				v, err := fix.UFix64(a).FMD(fix.UFix64(b), fix.UFix64(c), m)
				env["res"], env["err"] = new(big.Int).SetUint64(uint64(v)), errName(err)
			}
		}},
	)
	return cases
}

// cmdAxioms runs the conformance test and writes /verif/evidence/axiom_conformance.json.
func cmdAxioms(args []string) int {
	n := 2000
	seed := int64(1)
	for i := 0; i+1 < len(args); i += 2 {
		switch args[i] {
		case "-n":
			n, _ = strconv.Atoi(args[i+1])
		case "-seed":
			seed, _ = strconv.ParseInt(args[i+1], 10, 64)
		}
	}
	cs, err := LoadContracts(repoDir(), filepath.Join(VerifDir, "contracts/schemas"), filepath.Join(VerifDir, "contracts/stdlib"), nil)
	if err != nil {
		fmt.Fprintln(os.Stderr, "contracts:", err)
		return 2
	}
	sum, rc := runAxioms(cs, n, seed, os.Stdout)
	writeJSON(filepath.Join(VerifDir, "evidence", "axiom_conformance.json"), sum)
	return rc
}

// runAxioms executes the conformance test; the summary goes into evidence files.
func runAxioms(cs *ContractSet, n int, seed int64, out io.Writer) (map[string]any, int) {
	r := rand.New(rand.NewSource(seed))
	type stat struct {
		Cases, Skipped, Failures int
		First                    string `json:",omitempty"`
	}
	stats := map[string]*stat{}
	covered := map[string]bool{}
	rc := 0
	for _, c := range axCases() {
		ct := cs.Funcs[c.key]
		if ct == nil {
			fmt.Fprintf(out, "%-52s NO CONTRACT\n", c.key)
			rc = 1
			continue
		}
		covered[c.key] = true
		s := &stat{}
		stats[c.key] = s
		for i := 0; i < n; i++ {
			env := map[string]any{}
			call := c.run(r, env)
			msg := func() (msg string) {
				defer func() {
					if p := recover(); p != nil {
						if ae, ok := p.(axErr); ok {
							msg = "EVAL: " + ae.msg
							return
						}
						msg = fmt.Sprintf("PANIC: %v", p)
					}
				}()
				e := &cEnv{cs: cs, vars: env}
				snapshot(env)
				for _, rq := range ct.Requires {
					if !e.boolOf(e.eval(rq.Expr), "requires") {
						return "skip"
					}
				}
				call()
				if r0, ok := env["result"]; ok {
					env["result0"] = r0
				}
				for k, en := range ct.Ensures {
					if !e.boolOf(e.eval(en.Expr), "ensures") {
						return fmt.Sprintf("ensures %d violated: %s", k+1, en.Src)
					}
				}
				return ""
			}()
			switch {
			case msg == "skip":
				s.Skipped++
			case msg != "":
				s.Cases++
				s.Failures++
				if s.First == "" {
					s.First = msg + " | " + describeAxEnv(env)
				}
			default:
				s.Cases++
			}
		}
		status := "ok"
		if s.Failures > 0 || s.Cases == 0 {
			status = "FAIL"
			rc = 1
		}
		fmt.Fprintf(out, "%-52s %-4s cases=%d skipped=%d failures=%d %s\n",c.key, status, s.Cases, s.Skipped, s.Failures, truncate(s.First, 400))
	}
	// assumed lemma macros (spec L_*: facts about the uninterpreted functions, used as instances by contracts):
	// evaluated on random integers; the proved ones (keyword lemma) are included as a check of the evaluator
	var lnames []string
	for nme, sf := range cs.SpecFuns {
		if strings.HasPrefix(nme, "L_") && sf != nil {
			lnames = append(lnames, nme)
		}
	}
	sort.Strings(lnames)
	for _, nme := range lnames {
		sf := cs.SpecFuns[nme]
		s := &stat{}
		stats["lemma "+nme] = s
		for i := 0; i < n; i++ {
			env := map[string]any{}
			for _, p := range sf.Params {
				switch {
				case p == "n" || p == "k":
					ns := []int64{0, 1, 7, 8, 16, 32, 63, 64, 65, 127, 128, 255, 256, 257, int64(r.Intn(700))}
					env[p] = big.NewInt(ns[r.Intn(len(ns))])
				case r.Intn(5) == 0:
					env[p] = big.NewInt(int64(r.Intn(40) - 10))
				default:
					env[p] = axBig(r)
				}
			}
			if _, hasHi := env["hi"]; hasHi && r.Intn(10) < 7 {
				// ranges of the shape the side conditions ask for: [0, 2^k-1] or [-2^k, 2^k-1]
				ks := []int64{7, 8, 63, 64, 127, 128, 255, 256}
				k := ks[r.Intn(len(ks))]
				hi := new(big.Int).Sub(two(k), big.NewInt(1))
				env["hi"] = hi
				if _, hasLo := env["lo"]; hasLo {
					if r.Intn(2) == 0 {
						env["lo"] = big.NewInt(0)
					} else {
						env["lo"] = new(big.Int).Neg(two(k))
					}
				}
				for _, p := range sf.Params {
					if (p == "x" || p == "y") && r.Intn(2) == 0 {
						v := new(big.Int).Rand(r, two(k))
						if env["lo"].(*big.Int).Sign() < 0 && r.Intn(2) == 0 {
							v.Sub(v, two(k))
						}
						env[p] = v
					}
				}
			}
			msg := func() (msg string) {
				defer func() {
					if p := recover(); p != nil {
						if ae, ok := p.(axErr); ok {
							msg = "skip:" + ae.msg
							return
						}
						msg = fmt.Sprintf("PANIC: %v", p)
					}
				}()
				e := &cEnv{cs: cs, vars: env}
				if !e.boolOf(e.eval(sf.Expr), nme) {
					return "lemma instance false: " + sf.Src
				}
				return ""
			}()
			switch {
			case strings.HasPrefix(msg, "skip:"):
				s.Skipped++
				if s.First == "" && s.Skipped == n {
					s.First = msg
				}
			case msg != "":
				s.Cases++
				s.Failures++
				if s.First == "" {
					s.First = msg + " | " + describeAxEnv(env)
				}
			default:
				s.Cases++
			}
		}
		status := "ok"
		if s.Failures > 0 || s.Cases == 0 {
			status = "FAIL"
			rc = 1
		}
		fmt.Fprintf(out, "%-52s %-4s cases=%d skipped=%d failures=%d %s\n","lemma "+nme, status, s.Cases, s.Skipped, s.Failures, truncate(s.First, 400))
	}
	// assumed dependency contracts that have no conformance case
	var untested []string
	for _, k := range cs.Order {
		c := cs.Funcs[k]
		if c.Assumed && !covered[k] && (strings.Contains(k, "math/big") || strings.Contains(k, "math/bits") || strings.Contains(k, "onflow/fixed-point")) {
			untested = append(untested, k)
		}
	}
	sort.Strings(untested)
	for _, k := range untested {
		fmt.Fprintf(out, "%-52s UNTESTED\n", k)
	}
	total, failures := 0, 0
	for _, s := range stats {
		total += s.Cases
		failures += s.Failures
	}
	return map[string]any{
		"what":               "assumed contracts on math/big and onflow/fixed-point, and the assumed lemma macros, executed against the real libraries (testing of the trusted base; not proof)",
		"cases_per_contract": n, "seed": seed, "contracts_and_lemmas": len(stats), "cases": total, "failures": failures,
		"details": stats, "untested_assumed_contracts": untested,
	}, rc
}

func describeAxEnv(env map[string]any) string {
	var keys []string
	for k := range env {
		keys = append(keys, k)
	}
	sort.Strings(keys)
	var parts []string
	for _, k := range keys {
		switch t := env[k].(type) {
		case *cBig:
			if t == nil || t.p == nil {
				parts = append(parts, k+"=nil")
			} else if t.old != nil {
				parts = append(parts, fmt.Sprintf("%s=%s(old %s)", k, t.p, t.old))
			} else {
				parts = append(parts, fmt.Sprintf("%s=%s", k, t.p))
			}
		case *big.Int:
			parts = append(parts, fmt.Sprintf("%s=%s", k, t))
		case cFix:
			parts = append(parts, fmt.Sprintf("%s=%s", k, t.num()))
		case *cBytes:
			parts = append(parts, fmt.Sprintf("%s=%x", k, t.b))
		case cErr:
			parts = append(parts, fmt.Sprintf("%s=<%s>", k, t.name))
		default:
			parts = append(parts, fmt.Sprintf("%s=%v", k, t))
		}
	}
	return strings.Join(parts, " ")
}

func writeJSON(path string, v any) {
	os.MkdirAll(filepath.Dir(path), 0o755)
	data, _ := jsonMarshalIndent(v)
	os.WriteFile(path, data, 0o644)
}
