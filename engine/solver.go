package engine

import (
	"bytes"
	"context"
	"fmt"
	"math/big"
	"os"
	"os/exec"
	"path/filepath"
	"regexp"
	"strings"
	"sync"
	"time"
)

type SolverAnswer struct {
	Result  string // "sat", "unsat", "unknown", "timeout", "error"
	Solver  string
	TimeS   float64
	Model   map[string]string // symbol -> SMT value text
	Raw     string
	PerSolv map[string]string // result per solver (when all were run)
	File    string
}

type SolverCfg struct {
	Timeout time.Duration
	Seed    int
	All     bool     // run all solvers to completion (thorough): disagreement detection
	Order   []string // solver names
	WorkDir string
	NoStagger bool
}

var solverCmd = map[string][]string{
	"z3-new": {"z3-new", "-smt2"},
	"z3":     {"z3", "-smt2"},
	"cvc5":   {"cvc5", "--lang=smt2", "--incremental"},
}

var fileSeq struct {
	sync.Mutex
	n int
}

func runOne(ctx context.Context, solver string, file string, timeout time.Duration, seed int) (string, string, float64) {
	args := append([]string{}, solverCmd[solver][1:]...)
	secs := int(timeout.Seconds())
	if secs < 1 {
		secs = 1
	}
	switch solver {
	case "z3", "z3-new":
		args = append(args, fmt.Sprintf("-T:%d", secs))
		if seed != 0 {
			args = append(args, fmt.Sprintf("smt.random_seed=%d", seed), fmt.Sprintf("sat.random_seed=%d", seed))
		}
	case "cvc5":
		args = append(args, fmt.Sprintf("--tlimit=%d", secs*1000))
		if seed != 0 {
			args = append(args, fmt.Sprintf("--seed=%d", seed))
		}
	}
	args = append(args, file)
	cctx, cancel := context.WithTimeout(ctx, timeout+2*time.Second)
	defer cancel()
	var s string
	var dt float64
	if spawner != nil {
		s, dt, _ = spawner.run(cctx, append([]string{solverCmd[solver][0]}, args...), timeout+2*time.Second)
	} else {
		cmd := exec.CommandContext(cctx, solverCmd[solver][0], args...)
		var out bytes.Buffer
		cmd.Stdout = &out
		cmd.Stderr = &out
		t0 := time.Now()
		_ = cmd.Run()
		dt = time.Since(t0).Seconds()
		s = out.String()
	}
	// the answer is the first line that is exactly sat / unsat / unknown (cvc5 prints warnings about the missing
	// set-logic before it; z3 4.8 prints an error for get-value after unsat behind it)
	for _, ln := range strings.Split(s, "\n") {
		ln = strings.TrimSpace(ln)
		switch ln {
		case "sat", "unsat", "unknown":
			return ln, s, dt
		}
		if strings.HasPrefix(ln, "(") {
			break // a model or an error came first: no answer line
		}
	}
	if strings.Contains(s, "timeout") || cctx.Err() != nil {
		return "timeout", s, dt
	}
	if ctx.Err() != nil {
		return "cancelled", s, dt
	}
	return "error", s, dt
}

// Solve races the solvers. unsat from any solver (and no sat) = unsat. sat dominates.
func Solve(q *Query, name string, cfg SolverCfg) SolverAnswer {
	order := cfg.Order
	if len(order) == 0 {
		order = []string{"z3-new", "z3", "cvc5"}
	}
	if pool != nil && order[0] == "z3-new" {
		text := q.SMT(true)
		r, raw, dt := pool.solve(text, cfg.Timeout, cfg.Seed)
		first := SolverAnswer{Result: r, Solver: "z3-new", TimeS: dt, Raw: raw, PerSolv: map[string]string{"z3-new": r}}
		if r == "sat" {
			first.Model = parseModel(raw)
		}
		definite := r == "sat" || r == "unsat"
		if (definite && !cfg.All) || len(order) == 1 {
			if !definite || r == "sat" {
				// keep the query text for reports
				first.File = writeQueryFile(cfg.WorkDir, name, text)
			}
			return first
		}
		rest := cfg
		rest.Order = order[1:]
		rest.NoStagger = true
		other := solveProcs(q, name, rest)
		for k, v := range other.PerSolv {
			first.PerSolv[k] = v
		}
		otherDef := other.Result == "sat" || other.Result == "unsat"
		switch {
		case definite && otherDef && other.Result != r:
			first.Result = "disagree"
			first.Raw += "\n--- other solvers ---\n" + other.Raw
			first.File = other.File
			return first
		case definite:
			first.File = other.File
			return first
		case other.Result == "disagree" || otherDef:
			other.PerSolv = first.PerSolv
			other.TimeS += dt
			return other
		default:
			first.File = other.File
			if first.Raw == "" {
				first.Raw = other.Raw
			}
			return first
		}
	}
	return solveProcs(q, name, cfg)
}

func writeQueryFile(dir, name, text string) string {
	fileSeq.Lock()
	fileSeq.n++
	n := fileSeq.n
	fileSeq.Unlock()
	file := filepath.Join(dir, fmt.Sprintf("q%05d_%s.smt2", n, sanitizeFile(name)))
	os.WriteFile(file, []byte(text), 0o644)
	return file
}

func solveProcs(q *Query, name string, cfg SolverCfg) SolverAnswer {
	order := cfg.Order
	if len(order) == 0 {
		order = []string{"z3-new", "z3", "cvc5"}
	}
	fileSeq.Lock()
	fileSeq.n++
	n := fileSeq.n
	fileSeq.Unlock()
	base := filepath.Join(cfg.WorkDir, fmt.Sprintf("q%05d_%s", n, sanitizeFile(name)))
	text := q.SMT(true)
	file := base + ".smt2"
	if err := os.WriteFile(file, []byte(text), 0o644); err != nil {
		return SolverAnswer{Result: "error", Raw: err.Error()}
	}
	// cvc5 needs produce-models before set-logic: our SMT() emits it first already.
	type res struct {
		solver, result, raw string
		dt                  float64
	}
	ctx, cancel := context.WithCancel(context.Background())
	defer cancel()
	ch := make(chan res, len(order))
	// staged start: first solver immediately, the others after a short delay so that
	// easy goals cost one process.
	for i, s := range order {
		go func(i int, s string) {
			if i > 0 && !cfg.All && !cfg.NoStagger {
				delay := time.Duration(i) * 1500 * time.Millisecond
				if len(cfg.Order) > 0 {
					// an explicit order says which solver is expected to decide the goal: the others start only
					// when it has used most of its time (they would only compete with it for the cores)
					delay = time.Duration(i) * cfg.Timeout * 2 / 3
				}
				select {
				case <-time.After(delay):
				case <-ctx.Done():
					ch <- res{s, "cancelled", "", 0}
					return
				}
			}
			r, raw, dt := runOne(ctx, s, file, cfg.Timeout, cfg.Seed)
			ch <- res{s, r, raw, dt}
		}(i, s)
	}
	ans := SolverAnswer{Result: "unknown", PerSolv: map[string]string{}}
	var total float64
	got := 0
	for got < len(order) {
		r := <-ch
		got++
		ans.PerSolv[r.solver] = r.result
		if r.result == "sat" || r.result == "unsat" {
			total += r.dt
			if ans.Result != "sat" && ans.Result != "unsat" {
				ans.Result, ans.Solver, ans.TimeS, ans.Raw = r.result, r.solver, r.dt, r.raw
			} else if ans.Result != r.result {
				ans.Result = "disagree"
				ans.Raw += "\n--- " + r.solver + " ---\n" + r.raw
			}
			if !cfg.All {
				cancel()
				break
			}
		} else if ans.Result == "unknown" && r.result == "timeout" {
			ans.Raw = r.raw
			ans.Result = "timeout"
		} else if ans.Result == "unknown" || ans.Result == "timeout" {
			if r.result != "cancelled" && ans.Raw == "" {
				ans.Raw = r.raw
			}
		}
	}
	if ans.Result == "sat" {
		ans.Model = parseModel(ans.Raw)
	}
	ans.File = file
	return ans
}

func sanitizeFile(s string) string {
	re := regexp.MustCompile(`[^A-Za-z0-9_.#-]+`)
	s = re.ReplaceAllString(s, "_")
	if len(s) > 120 {
		s = s[:120]
	}
	return s
}

// parseModel parses the (get-value ...) response: ((a 1) (b (- 2)) (c #x0f) ...)
func parseModel(raw string) map[string]string {
	m := map[string]string{}
	i := strings.Index(raw, "((")
	if i < 0 {
		return m
	}
	s := raw[i+1:]
	// iterate over top-level (name value) pairs
	depth := 0
	start := -1
	for k := 0; k < len(s); k++ {
		switch s[k] {
		case '(':
			if depth == 0 {
				start = k
			}
			depth++
		case ')':
			depth--
			if depth == 0 && start >= 0 {
				pair := strings.TrimSpace(s[start+1 : k])
				sp := strings.IndexAny(pair, " \n\t")
				if sp > 0 {
					m[pair[:sp]] = strings.TrimSpace(pair[sp+1:])
				}
				start = -1
			}
			if depth < 0 {
				return m
			}
		}
	}
	return m
}

// ModelInt converts an SMT value (Int or BV literal) into a big.Int (BV: unsigned).
func ModelInt(v string) (*big.Int, bool) {
	v = strings.TrimSpace(v)
	if strings.HasPrefix(v, "#x") {
		n, ok := new(big.Int).SetString(v[2:], 16)
		return n, ok
	}
	if strings.HasPrefix(v, "#b") {
		n, ok := new(big.Int).SetString(v[2:], 2)
		return n, ok
	}
	if strings.HasPrefix(v, "(_ bv") {
		f := strings.Fields(v[5:])
		n, ok := new(big.Int).SetString(f[0], 10)
		return n, ok
	}
	if strings.HasPrefix(v, "(-") {
		inner := strings.TrimSpace(strings.TrimSuffix(strings.TrimPrefix(v, "(-"), ")"))
		n, ok := ModelInt(inner)
		if !ok {
			return nil, false
		}
		return n.Neg(n), true
	}
	n, ok := new(big.Int).SetString(v, 10)
	return n, ok
}
