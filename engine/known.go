package engine

import (
	"encoding/json"
	"fmt"
	"os"
	"path/filepath"
	"strings"
)

// KnownInputStillFails re-runs the recorded failing input of a known finding on the real code and judges
// it against the current contract. The finding suppresses the alarm only while that very input still fails.
func (p *Program) KnownInputStillFails(opts CheckOpts, k KnownFinding, res *OblResult, frs []*FuncResult, work string) bool {
	if k.GoCall == "" {
		return false
	}
	var fr *FuncResult
	fnKey := k.Obligation
	if i := strings.LastIndex(fnKey, "#"); i >= 0 {
		fnKey = fnKey[:i]
	}
	for _, f := range frs {
		if f.Key == fnKey {
			fr = f
		}
	}
	if fr == nil || fr.Exec == nil {
		return false
	}
	fn := fr.Exec.Fn
	nres := fn.Signature.Results().Len()
	body := k.GoCall + "\n\t\treturn nil"
	if nres > 0 {
		var rs []string
		for i := 0; i < nres; i++ {
			rs = append(rs, fmt.Sprintf("r%d", i))
		}
		body = strings.Join(rs, ", ") + " := " + k.GoCall + "\n\t\treturn []any{" + strings.Join(rs, ", ") + "}"
	}
	outs, _, err := p.runHarnessMulti(fn, []string{body}, k.Decls, k.Imports, work, opts.Overlay)
	if err != nil || len(outs) == 0 {
		return false
	}
	var oc outcome
	if err := json.Unmarshal([]byte(outs[0]), &oc); err != nil {
		return false
	}
	_, violated := p.judge(fr, k.Model, &oc, work)
	return violated
}

// cmdKnown: `cverif known add <replay-file> <what...>` records a confirmed violation as a known finding.
func cmdKnown(args []string) int {
	if len(args) < 3 || args[0] != "add" {
		fmt.Fprintln(os.Stderr, "usage: cverif known add <replay-file> <what>")
		return 2
	}
	data, err := os.ReadFile(args[1])
	if err != nil {
		fmt.Fprintln(os.Stderr, err)
		return 2
	}
	var info struct {
		Property   string        `json:"property"`
		Obligation string        `json:"obligation"`
		Replay     *ReplayResult `json:"replay"`
	}
	if err := json.Unmarshal(data, &info); err != nil || info.Replay == nil || !info.Replay.Confirmed {
		fmt.Fprintln(os.Stderr, "replay file has no confirmed violation")
		return 2
	}
	k := KnownFinding{Property: info.Property, Obligation: info.Obligation, Input: truncate(info.Replay.Input, 300), What: strings.Join(args[2:], " "),
		Status: "known", GoCall: info.Replay.GoCall, Model: info.Replay.Model, Decls: info.Replay.Decls, Imports: info.Replay.Imports}
	known := loadKnown()
	var out []KnownFinding
	for _, o := range known {
		if !(o.Property == k.Property && o.Obligation == k.Obligation && o.Status == "known") {
			out = append(out, o)
		}
	}
	out = append(out, k)
	b, _ := json.MarshalIndent(out, "", " ")
	if err := os.WriteFile(filepath.Join(VerifDir, "known_findings.json"), b, 0o644); err != nil {
		fmt.Fprintln(os.Stderr, err)
		return 2
	}
	fmt.Println("recorded:", k.Property, k.Obligation)
	return 0
}
