package engine

import (
	"bufio"
	"fmt"
	"io"
	"os/exec"
	"strings"
	"sync"
	"time"
)

// Process creation is the bottleneck in this sandbox (~50 solver processes per second in total,
// measured, whatever the parallelism), so z3-new runs as a pool of persistent interactive processes;
// each query is sent after a (reset). The other solvers are only started (one process per query) when
// the pool's answer is not definite, or in the thorough tier.

type z3Worker struct {
	cmd *exec.Cmd
	in  io.WriteCloser
	out *bufio.Reader
	bin string
}

type z3Pool struct {
	idle chan *z3Worker
	bin  string
	n    int
	mu   sync.Mutex
}

var pool *z3Pool

func startWorker(bin string) *z3Worker {
	cmd := exec.Command(bin, "-in", "-smt2")
	in, err := cmd.StdinPipe()
	if err != nil {
		return nil
	}
	out, err := cmd.StdoutPipe()
	if err != nil {
		return nil
	}
	cmd.Stderr = nil
	if err := cmd.Start(); err != nil {
		return nil
	}
	return &z3Worker{cmd: cmd, in: in, out: bufio.NewReaderSize(out, 1<<20), bin: bin}
}

func StartPool(n int) {
	if pool != nil {
		return
	}
	p := &z3Pool{idle: make(chan *z3Worker, n), bin: "z3-new", n: n}
	for i := 0; i < n; i++ {
		if w := startWorker(p.bin); w != nil {
			p.idle <- w
		}
	}
	if len(p.idle) == 0 {
		return
	}
	pool = p
}

func StopPool() {
	if pool == nil {
		return
	}
	for {
		select {
		case w := <-pool.idle:
			w.in.Close()
			w.cmd.Process.Kill()
			w.cmd.Wait()
		default:
			return
		}
	}
}

const endMarker = "@@verif-end@@"

// solve sends one query (text must not contain (exit)) and returns the first answer line and the raw output.
func (p *z3Pool) solve(text string, timeout time.Duration, seed int) (string, string, float64) {
	w := <-p.idle
	t0 := time.Now()
	var b strings.Builder
	b.WriteString("(reset)\n")
	fmt.Fprintf(&b, "(set-option :timeout %d)\n", timeout.Milliseconds())
	if seed != 0 {
		fmt.Fprintf(&b, "(set-option :smt.random_seed %d)\n(set-option :sat.random_seed %d)\n", seed, seed)
	}
	b.WriteString(text)
	fmt.Fprintf(&b, "\n(echo \"%s\")\n", endMarker)
	type rd struct {
		out string
		err error
	}
	ch := make(chan rd, 1)
	go func() {
		if _, err := io.WriteString(w.in, b.String()); err != nil {
			ch <- rd{"", err}
			return
		}
		var out strings.Builder
		for {
			line, err := w.out.ReadString('\n')
			if strings.Contains(line, endMarker) {
				ch <- rd{out.String(), nil}
				return
			}
			out.WriteString(line)
			if err != nil {
				ch <- rd{out.String(), err}
				return
			}
		}
	}()
	var r rd
	select {
	case r = <-ch:
	case <-time.After(timeout + 5*time.Second):
		r = rd{"timeout (worker killed)", fmt.Errorf("watchdog")}
	}
	dt := time.Since(t0).Seconds()
	if r.err != nil {
		// replace the worker
		w.cmd.Process.Kill()
		go w.cmd.Wait()
		nw := startWorker(p.bin)
		if nw != nil {
			p.idle <- nw
		} else {
			// keep the pool size: retry later with a fresh one
			go func() {
				time.Sleep(time.Second)
				if nw := startWorker(p.bin); nw != nil {
					p.idle <- nw
				}
			}()
		}
		if strings.Contains(r.out, "timeout") {
			return "timeout", r.out, dt
		}
		return "error", r.out + " " + r.err.Error(), dt
	}
	p.idle <- w
	first := ""
	for _, l := range strings.Split(r.out, "\n") {
		l = strings.TrimSpace(l)
		if l == "sat" || l == "unsat" || l == "unknown" {
			first = l
			break
		}
	}
	if first == "" {
		if strings.Contains(r.out, "timeout") {
			return "timeout", r.out, dt
		}
		return "error", r.out, dt
	}
	if first == "unknown" && (strings.Contains(r.out, "timeout") || dt >= timeout.Seconds()*0.95) {
		return "timeout", r.out, dt
	}
	return first, r.out, dt
}
