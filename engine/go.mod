module verif/engine

go 1.25

require (
	github.com/onflow/fixed-point v0.1.1
	golang.org/x/tools v0.39.0
)

require (
	golang.org/x/mod v0.30.0 // indirect
	golang.org/x/sync v0.18.0 // indirect
)
