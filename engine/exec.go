package engine

import (
	"fmt"
	"go/ast"
	"go/constant"
	"go/token"
	"go/types"
	"math/big"
	"sort"
	"strings"

	"golang.org/x/tools/go/ssa"
)

type Mode int

const (
	ModeInt Mode = iota
	ModeBV
)

type Frame struct {
	Fn     *ssa.Function
	Vals   map[ssa.Value]Val
	Names  map[string]nameRef
	Block  *ssa.BasicBlock
	Pred   *ssa.BasicBlock
	Idx    int
	RetTo  ssa.Value // call instruction value in the caller frame (nil for top)
	Visits map[int]int
	Bind   []Val
	Depth  int
	Defers []deferred
	Loops  *loopInfo
	// havocked loops (by header index): header was cut with an invariant
	Cut map[int]bool
	Pending *pendingCut
	// LoopSnap: the state in which a cut loop (by ordinal) was entered on this path, for loopentry(e) in invariants
	LoopSnap map[int]*State
}

type pendingCut struct {
	ord  int
	spec *LoopSpec
	back bool
	hdr  *ssa.BasicBlock
}

type nameRef struct {
	V      Val
	IsAddr bool
	Typ    types.Type // static type of the named variable (nil when unknown)
}

// debugRefType: the type of the source variable a DebugRef names (the pointee when it refers to its address)
func debugRefType(x *ssa.DebugRef) types.Type {
	t := x.X.Type()
	if x.IsAddr {
		if p, ok := t.Underlying().(*types.Pointer); ok {
			return p.Elem()
		}
	}
	return t
}

type deferred struct {
	Fn   Val
	Args []Val
}

type PanicInfo struct {
	Kind string
	Env  bool
	Val  Val
}

type State struct {
	Frames []*Frame
	PC     []*Term
	Cells  map[*Cell]Val
	Mem    map[*Region]*Term
	Maps   map[*Cell]*MapState
	Big    *Term
	Ghost  map[string]*Term
	Panic  *PanicInfo
	// BigWrites: refs written on this path (for frame obligations)
	Trace []string
	// Calls: arguments and results of the calls made through contracts on this path, by site ("rlp.DecodeList#1"):
	// readable in postconditions as called(site), callarg(site, i), callres(site, i)
	Calls map[string]*callRecord
}

type callRecord struct {
	Args []Val
	Rets []Val
}

type MapState struct {
	Vals    *Term // Array K V
	Present *Term // Array K Bool
	Size    *Term
}

func (st *State) clone() *State {
	n := &State{PC: append([]*Term{}, st.PC...), Big: st.Big, Panic: st.Panic}
	n.Frames = make([]*Frame, len(st.Frames))
	for i, f := range st.Frames {
		nf := *f
		nf.Vals = make(map[ssa.Value]Val, len(f.Vals))
		for k, v := range f.Vals {
			nf.Vals[k] = v
		}
		nf.Names = make(map[string]nameRef, len(f.Names))
		for k, v := range f.Names {
			nf.Names[k] = v
		}
		nf.Visits = make(map[int]int, len(f.Visits))
		for k, v := range f.Visits {
			nf.Visits[k] = v
		}
		nf.Cut = make(map[int]bool, len(f.Cut))
		for k, v := range f.Cut {
			nf.Cut[k] = v
		}
		nf.Defers = append([]deferred{}, f.Defers...)
		if f.LoopSnap != nil {
			nf.LoopSnap = make(map[int]*State, len(f.LoopSnap))
			for k, v := range f.LoopSnap {
				nf.LoopSnap[k] = v
			}
		}
		n.Frames[i] = &nf
	}
	n.Cells = make(map[*Cell]Val, len(st.Cells))
	for k, v := range st.Cells {
		n.Cells[k] = v
	}
	n.Mem = make(map[*Region]*Term, len(st.Mem))
	for k, v := range st.Mem {
		n.Mem[k] = v
	}
	n.Maps = make(map[*Cell]*MapState, len(st.Maps))
	for k, v := range st.Maps {
		c := *v
		n.Maps[k] = &c
	}
	n.Ghost = make(map[string]*Term, len(st.Ghost))
	for k, v := range st.Ghost {
		n.Ghost[k] = v
	}
	n.Trace = append([]string{}, st.Trace...)
	if st.Calls != nil {
		n.Calls = make(map[string]*callRecord, len(st.Calls))
		for k, v := range st.Calls {
			n.Calls[k] = v
		}
	}
	return n
}

func (st *State) top() *Frame { return st.Frames[len(st.Frames)-1] }

func (st *State) assume(t *Term) { st.PC = append(st.PC, t) }

type SideObl struct {
	Name string
	PC   []*Term
	Cond *Term
	Tags []string
}

type Exit struct {
	PC    []*Term
	Panic *PanicInfo
	Ret   []Val
	St    *State
}

type Exec struct {
	P       *Program
	Mode    Mode
	Fn      *ssa.Function
	C       *Contract
	Defs    []Def
	Assumes []*Term
	Funs    map[string]string // extra SMT function declarations by name
	Side    []SideObl
	Exits   []*Exit
	Inputs  []string
	nfresh  int
	nref    int
	ncell   int
	steps   int
	MaxStep int
	Rejected string
	ParamVals map[string]Val
	Entry   *State
	siteCnt map[string]int
	Inlined map[string]bool
	UsedContracts map[string]bool
	UsedAssumed map[string]bool
	loopCache map[*ssa.Function]*loopInfo
	globalCells map[string]*Cell
	BigWrites []BigWrite
	Refine     []*Term // facts added only when re-solving a satisfiable obligation (counterexample refinement)
	pdomCache  map[*ssa.Function]map[*ssa.BasicBlock]*ssa.BasicBlock
	axiomsDone bool
	Axioms     []*Term
	AxiomNames []string
	resultMode bool
	// usesHeapRefs: a reference into the read-only linked heap (heapobj) was created for the function under verification
	usesHeapRefs bool
	heapIfaces   map[string]IfaceV // interface-valued fields of heap objects read so far, by field function and reference term
	bigRefSyms []*Term // *big.Int references returned by callees so far (results of contracts)
	pendingCallee     *ssa.Function // the callee whose contract is being applied (nil: interface method)
	pendingParamTypes []types.Type // parameter types of the callee whose contract is being applied (set by callFn)
	SymRangesMap map[string][2]*big.Int // value ranges of this function's machine-integer symbols (see SymRanges)
	ArrayPrefixMap map[string]arrayPrefix // arrays known to extend older arrays (see ArrayPrefix)
	BaseLowerBoundMap map[string]*Term    // lower bounds of index bases (see BaseLowerBound)
	constSeen map[string]bool
	Debug   bool
}

type rejectErr struct{ msg string }

func (ex *Exec) reject(format string, a ...any) {
	panic(rejectErr{fmt.Sprintf(format, a...)})
}

func (ex *Exec) fresh(prefix string, s Sort) *Term {
	ex.nfresh++
	return Sym(fmt.Sprintf("%s_%d", sanitizeSym(prefix), ex.nfresh), s)
}

func sanitizeSym(s string) string {
	var b strings.Builder
	for _, r := range s {
		switch {
		case r >= 'a' && r <= 'z', r >= 'A' && r <= 'Z', r >= '0' && r <= '9', r == '_', r == '!', r == '.', r == '$':
			b.WriteRune(r)
		default:
			b.WriteByte('_')
		}
	}
	return b.String()
}

// def names a term so that it is shared in queries.
func (ex *Exec) def(prefix string, t *Term) *Term {
	if t.Op == "sym" || t.Op == "const" || t.Op == "true" || t.Op == "false" {
		return t
	}
	if len(t.String()) < 40 {
		return t
	}
	ex.nfresh++
	name := fmt.Sprintf("%s_%d", sanitizeSym(prefix), ex.nfresh)
	ex.Defs = append(ex.Defs, Def{Name: name, S: t.S, T: t})
	CurDefs[name] = t
	return Sym(name, t.S)
}

// ---------- sorts for Go types ----------

func (ex *Exec) idxSort() Sort {
	if ex.Mode == ModeBV {
		return BVSort(64)
	}
	return IntSort
}

func (ex *Exec) intSort(t types.Type) Sort {
	if ex.Mode == ModeBV {
		bits, _, _ := intInfo(t)
		return BVSort(bits)
	}
	return IntSort
}

func (ex *Exec) elemSort(t types.Type) (Sort, bool) {
	if _, _, ok := intInfo(t); ok {
		return ex.intSort(t), true
	}
	if isBool(t) {
		return BoolSort, true
	}
	return IntSort, false
}

func (ex *Exec) intConst(v *big.Int, t types.Type) *Term {
	if ex.Mode == ModeBV {
		bits, _, _ := intInfo(t)
		return BVC(v, bits)
	}
	return IntBig(v)
}

func (ex *Exec) idxConst(v int64) *Term {
	if ex.Mode == ModeBV {
		return BVC(big.NewInt(v), 64)
	}
	return IntC(v)
}

// range fact for a symbolic machine integer (Int mode)
func (ex *Exec) rangeFact(x *Term, t types.Type) *Term {
	if ex.Mode == ModeBV {
		return True
	}
	bits, signed, ok := intInfo(t)
	if !ok {
		return True
	}
	if signed {
		lo, hi := new(big.Int).Neg(Pow2(bits-1)), new(big.Int).Sub(Pow2(bits-1), big.NewInt(1))
		if x.Op == "sym" {
			SymRanges[x.Name] = [2]*big.Int{lo, hi}
		}
		return And(IGe(x, IntBig(lo)), ILe(x, IntBig(hi)))
	}
	hi := new(big.Int).Sub(Pow2(bits), big.NewInt(1))
	if x.Op == "sym" {
		SymRanges[x.Name] = [2]*big.Int{big.NewInt(0), hi}
	}
	return And(IGe(x, IntC(0)), ILe(x, IntBig(hi)))
}

// ---------- symbolic values ----------

func (ex *Exec) newCell(name string) *Cell {
	ex.ncell++
	return &Cell{Name: fmt.Sprintf("%s#%d", name, ex.ncell), id: ex.ncell}
}

func (ex *Exec) newRegion(name string, elem types.Type, fixed int64) *Region {
	ex.ncell++
	r := &Region{Name: fmt.Sprintf("%s#%d", name, ex.ncell), id: ex.ncell, Elem: elem, FixedLen: fixed}
	if st, ok := elem.Underlying().(*types.Struct); ok && st.NumFields() > 0 && st.NumFields() <= 6 {
		all := true
		for i := 0; i < st.NumFields(); i++ {
			if _, scalar := ex.elemSort(st.Field(i).Type()); !scalar {
				all = false
			}
		}
		if all {
			for i := 0; i < st.NumFields(); i++ {
				ex.ncell++
				r.Sub = append(r.Sub, &Region{Name: fmt.Sprintf("%s.%s", r.Name, st.Field(i).Name()), id: ex.ncell, Elem: st.Field(i).Type(), FixedLen: fixed})
			}
		}
	}
	return r
}

// setRegionMem initialises the contents of a region (and of its per-field sub-regions) with mk(elemType, nameSuffix).
func (ex *Exec) setRegionMem(st *State, r *Region, mk func(elem types.Type, suffix string) *Term) {
	if len(r.Sub) > 0 {
		for _, s := range r.Sub {
			st.Mem[s] = mk(s.Elem, s.Name[strings.LastIndex(s.Name, "."):])
		}
		st.Mem[r] = mk(types.Typ[types.Int], "")
		return
	}
	st.Mem[r] = mk(r.Elem, "")
}

func (ex *Exec) regionLoad(st *State, r *Region, idx *Term, path []int) Val {
	if len(r.Sub) > 0 {
		if len(path) == 1 {
			return ex.elemVal(r.Sub[path[0]].Elem, Select(st.Mem[r.Sub[path[0]]], idx))
		}
		sv := StructV{Typ: r.Elem}
		for _, s := range r.Sub {
			sv.F = append(sv.F, ex.elemVal(s.Elem, Select(st.Mem[s], idx)))
		}
		return sv
	}
	mem := st.Mem[r]
	if mem == nil {
		ex.reject("load from unknown region %s", r.Name)
	}
	return ex.elemVal(r.Elem, Select(mem, idx))
}

func (ex *Exec) regionStore(st *State, r *Region, idx *Term, path []int, v Val) {
	if len(r.Sub) > 0 {
		if len(path) == 1 {
			st.Mem[r.Sub[path[0]]] = ex.def("mem", Store(st.Mem[r.Sub[path[0]]], idx, ex.elemTerm(v)))
			return
		}
		sv, ok := v.(StructV)
		if !ok {
			ex.reject("store of non-struct into struct-element region")
		}
		for i, s := range r.Sub {
			st.Mem[s] = ex.def("mem", Store(st.Mem[s], idx, ex.elemTerm(sv.F[i])))
		}
		return
	}
	st.Mem[r] = ex.def("mem", Store(st.Mem[r], idx, ex.elemTerm(v)))
}

func (ex *Exec) regionSort(elem types.Type) Sort {
	es, ok := ex.elemSort(elem)
	if !ok {
		// non-scalar elements: identified by Int ids (opaque)
		es = IntSort
	}
	return ArraySort(ex.idxSort(), es)
}

func (ex *Exec) declInput(name string, s Sort) *Term {
	name = sanitizeSym(name)
	ex.Inputs = append(ex.Inputs, name)
	return Sym(name, s)
}

// symVal creates a fully symbolic value of type t. Facts that hold by Go typing go to ex.Assumes.
func (ex *Exec) symVal(st *State, name string, t types.Type, depth int) Val {
	if depth > 6 {
		return OpaqueV{Typ: t, Id: ex.declInput(name+"!id", IntSort)}
	}
	if isBigIntPtr(t) {
		r := ex.declInput(name+"!ref", IntSort)
		if ex.resultMode {
			// a reference handed back by a callee: remembered so that later allocations are known to differ from it
			ex.bigRefSyms = append(ex.bigRefSyms, r)
		}
		if !ex.resultMode {
			ex.Assumes = append(ex.Assumes, IGe(r, IntC(0)))
			// alias for the entry value of the referenced big.Int (model extraction for replay)
			alias := sanitizeSym(name + "!ref!val")
			ex.Defs = append(ex.Defs, Def{Name: alias, S: IntSort, T: Select(Sym("heap0", ArraySort(IntSort, IntSort)), r)})
			ex.Inputs = append(ex.Inputs, alias)
			if uf, ok := ex.P.CS.UFuns["words"]; ok {
				ex.useUFun(uf)
				walias := sanitizeSym(name + "!ref!words")
				ex.Defs = append(ex.Defs, Def{Name: walias, S: IntSort, T: App("words", IntSort, Select(Sym("heap0", ArraySort(IntSort, IntSort)), r))})
				ex.Inputs = append(ex.Inputs, walias)
			}
		}
		return PtrV{K: PBig, Ref: r, Elem: t.(*types.Pointer).Elem()}
	}
	if _, isTP := t.(*types.TypeParam); isTP {
		// a value of type-parameter type: only stored and compared; an opaque identity
		return OpaqueV{Typ: t, Id: ex.declInput(name+"!tp", IntSort)}
	}
	switch u := t.Underlying().(type) {
	case *types.Basic:
		if _, _, ok := intInfo(t); ok {
			x := ex.declInput(name, ex.intSort(t))
			ex.Assumes = append(ex.Assumes, ex.rangeFact(x, t))
			return Scalar{x}
		}
		if isBool(t) {
			return Scalar{ex.declInput(name, BoolSort)}
		}
		if isString(t) {
			l := ex.declInput(name+"!len", ex.idxSort())
			ex.Assumes = append(ex.Assumes, ex.geZero(l))
			return StringV{Id: ex.declInput(name+"!str", IntSort), Len: l}
		}
		// floats, complex, unsafe.Pointer: carried around as opaque values (any operation on them rejects)
		return OpaqueV{Typ: t, Id: ex.declInput(name+"!opq", IntSort)}
	case *types.Struct:
		sv := StructV{Typ: t}
		for i := 0; i < u.NumFields(); i++ {
			f := u.Field(i)
			sv.F = append(sv.F, ex.symVal(st, name+"."+f.Name(), f.Type(), depth+1))
		}
		return sv
	case *types.Pointer:
		if ex.heapObjOf(u.Elem()) != nil {
			// a reference into the read-only linked heap (heapobj): any object, or nil (0)
			r := ex.declInput(name+"!href", IntSort)
			ex.usesHeapRefs = true
			ex.Assumes = append(ex.Assumes, IGe(r, IntC(0)))
			return PtrV{K: POpaque, Ref: r, Elem: u.Elem()}
		}
		// pointer to a modelled cell holding a symbolic value; assumed non-nil and unaliased
		c := ex.newCell(name)
		st.Cells[c] = ex.symVal(st, name+"!deref", u.Elem(), depth+1)
		return PtrV{K: PCell, Cell: c, Elem: u.Elem()}
	case *types.Slice:
		r := ex.newRegion(name, u.Elem(), -1)
		r.Param = true
		ex.setRegionMem(st, r, func(el types.Type, suf string) *Term { return ex.declInput(name+"!data"+suf, ex.regionSort(el)) })
		l := ex.declInput(name+"!len", ex.idxSort())
		c := ex.declInput(name+"!cap", ex.idxSort())
		ex.Assumes = append(ex.Assumes, ex.geZero(l), ex.le(l, c), ex.le(c, ex.maxLen()))
		if _, scalarElem := ex.elemSort(u.Elem()); scalarElem && !ex.resultMode && depth == 0 {
			// aliases for the first elements (model extraction for replay)
			for i := 0; i < 72; i++ {
				alias := sanitizeSym(fmt.Sprintf("%s!e%d", name, i))
				ex.Defs = append(ex.Defs, Def{Name: alias, S: *st.Mem[r].S.Elem, T: Select(st.Mem[r], ex.idxConst(int64(i)))})
				ex.Inputs = append(ex.Inputs, alias)
			}
		}
		sv := SliceV{Elem: u.Elem(), Region: r, Off: ex.idxConst(0), Len: l, Cap: c}
		if ex.resultMode && depth <= 1 {
			// a slice returned by a callee used through its contract may be the nil slice (then it is empty)
			sv.IsNil = ex.declInput(name+"!isnil", BoolSort)
			ex.Assumes = append(ex.Assumes, Implies(sv.IsNil, Eq(l, ex.idxConst(0))))
		}
		return sv
	case *types.Interface:
		k := ex.declInput(name+"!kind", IntSort)
		ex.Assumes = append(ex.Assumes, IGe(k, IntC(0)))
		return IfaceV{Kind: k, Sym: &IfaceSym{Name: name, Payloads: map[string]Val{}, Ghosts: map[string]*Term{}}}
	case *types.Signature:
		return OpaqueV{Typ: t, Id: ex.declInput(name+"!fn", IntSort)}
	case *types.Array:
		r := ex.newRegion(name, u.Elem(), u.Len())
		st.Mem[r] = ex.declInput(name+"!data", ex.regionSort(u.Elem()))
		return ArrayV{Typ: u, Region: r}
	case *types.Map:
		return ex.symMap(st, name, u)
	case *types.TypeParam:
		return OpaqueV{Typ: t, Id: ex.declInput(name+"!tp", IntSort)}
	}
	ex.reject("unsupported type %s for symbolic value %s", t, name)
	return nil
}

func (ex *Exec) maxLen() *Term {
	// slices are at most 2^62 elements (keeps Int/BV index arithmetic on lengths overflow-free facts honest:
	// Go cannot allocate more than the address space)
	if ex.Mode == ModeBV {
		return BVC(Pow2(62), 64)
	}
	return IntBig(Pow2(62))
}

func (ex *Exec) geZero(x *Term) *Term {
	if ex.Mode == ModeBV {
		return BVCmp("bvsge", x, BVC(big.NewInt(0), x.S.W))
	}
	return IGe(x, IntC(0))
}
func (ex *Exec) le(a, b *Term) *Term {
	if ex.Mode == ModeBV {
		return BVCmp("bvsle", a, b)
	}
	return ILe(a, b)
}
func (ex *Exec) lt(a, b *Term) *Term {
	if ex.Mode == ModeBV {
		return BVCmp("bvslt", a, b)
	}
	return ILt(a, b)
}
func (ex *Exec) idxAdd(a, b *Term) *Term {
	if ex.Mode == ModeBV {
		return BVBin("bvadd", a, b)
	}
	return IAdd(a, b)
}
func (ex *Exec) idxSub(a, b *Term) *Term {
	if ex.Mode == ModeBV {
		return BVBin("bvsub", a, b)
	}
	return ISub(a, b)
}

func (ex *Exec) zeroVal(st *State, t types.Type) Val {
	if isBigIntPtr(t) {
		return PtrV{K: PBig, Ref: IntC(0), Elem: t.(*types.Pointer).Elem()}
	}
	if _, isTP := t.(*types.TypeParam); isTP {
		// the zero value of a type parameter's type: an opaque value with identity 0
		return OpaqueV{Typ: t, Id: IntC(0)}
	}
	switch u := t.Underlying().(type) {
	case *types.Basic:
		if _, _, ok := intInfo(t); ok {
			return Scalar{ex.intConst(big.NewInt(0), t)}
		}
		if isBool(t) {
			return Scalar{False}
		}
		if isString(t) {
			s := ""
			return StringV{Id: IntC(0), Len: ex.idxConst(0), Lit: &s}
		}
		if u.Kind() == types.UnsafePointer {
			return PtrV{K: PNil}
		}
		ex.reject("zero value of basic type %s", t)
	case *types.Struct:
		sv := StructV{Typ: t}
		for i := 0; i < u.NumFields(); i++ {
			sv.F = append(sv.F, ex.zeroVal(st, u.Field(i).Type()))
		}
		return sv
	case *types.Pointer:
		return PtrV{K: PNil, Elem: u.Elem()}
	case *types.Slice:
		return SliceV{Elem: u.Elem(), Off: ex.idxConst(0), Len: ex.idxConst(0), Cap: ex.idxConst(0)}
	case *types.Interface:
		return IfaceV{Kind: IntC(0)}
	case *types.Signature:
		return PtrV{K: PNil}
	case *types.Map:
		return MapV{Typ: u}
	case *types.TypeParam:
		// the zero value of a type parameter's type: an opaque value with identity 0
		return OpaqueV{Typ: t, Id: IntC(0)}
	case *types.Array:
		r := ex.newRegion("zeroarr", u.Elem(), u.Len())
		es, _ := ex.elemSort(u.Elem())
		var zero *Term
		switch es.K {
		case SBool:
			zero = False
		case SBV:
			zero = BVC(big.NewInt(0), es.W)
		default:
			zero = IntC(0)
		}
		st.Mem[r] = App(fmt.Sprintf("(as const %s)", ex.regionSort(u.Elem())), ex.regionSort(u.Elem()), zero)
		if len(r.Sub) > 0 {
			ex.setRegionMem(st, r, func(el types.Type, suf string) *Term { return ex.zeroArray(el) })
		}
		return ArrayV{Typ: u, Region: r}
	}
	ex.reject("zero value of type %s", t)
	return nil
}

// ---------- memory access ----------

func (ex *Exec) load(st *State, p Val, site string) Val {
	pv, ok := p.(PtrV)
	if !ok {
		ex.reject("load through non-pointer %s", valString(p))
	}
	switch pv.K {
	case PNil:
		ex.safety(st, "nil-deref", site, False)
		return nil
	case PCell:
		v, ok := st.Cells[pv.Cell]
		if !ok {
			ex.reject("load of unknown cell %s", pv.Cell.Name)
		}
		for _, i := range pv.Path {
			sv, ok := v.(StructV)
			if !ok {
				ex.reject("field path through non-struct %s", valString(v))
			}
			v = sv.F[i]
		}
		return v
	case PElem:
		return ex.regionLoad(st, pv.Region, pv.Idx, pv.Path)
	case PBig:
		ex.reject("direct load of big.Int struct")
	case POpaque:
		if ho := ex.heapObjOf(pv.Elem); ho != nil && len(pv.Path) == 1 {
			// a field of an object of the read-only linked heap: the declared function of the object's reference
			f := pv.Elem.Underlying().(*types.Struct).Field(pv.Path[0])
			uf := ex.P.CS.UFuns[ho[f.Name()]]
			if uf == nil || len(uf.Args) != 1 || uf.Args[0] != "Int" || uf.Res != "Int" {
				ex.reject("heapobj %s: field %s needs a declared `ufun f(Int) Int`", pv.Elem, f.Name())
			}
			ex.useUFun(uf)
			t := App(uf.Name, IntSort, pv.Ref)
			if pt, isPtr := f.Type().Underlying().(*types.Pointer); isPtr && !isBigIntPtr(f.Type()) {
				return PtrV{K: POpaque, Ref: t, Elem: pt.Elem()}
			}
			if _, isTP := f.Type().(*types.TypeParam); isTP {
				return OpaqueV{Typ: f.Type(), Id: t}
			}
			if _, isIface := f.Type().Underlying().(*types.Interface); isIface {
				// an interface-valued field: one symbolic interface value per (field, reference term); reading the same
				// reference again gives the same value (two syntactically different but equal references give
				// unrelated values: incomplete, not unsound)
				key := uf.Name + "|" + pv.Ref.String()
				if iv, ok := ex.heapIfaces[key]; ok {
					return iv
				}
				if ex.heapIfaces == nil {
					ex.heapIfaces = map[string]IfaceV{}
				}
				nm := sanitizeSym(fmt.Sprintf("hf_%s_%d", uf.Name, len(ex.heapIfaces)))
				save := ex.Inputs
				k := ex.declInput(nm+"!kind", IntSort)
				ex.Inputs = save
				ex.Assumes = append(ex.Assumes, IGe(k, IntC(0)))
				iv := IfaceV{Kind: k, Sym: &IfaceSym{Name: nm, Payloads: map[string]Val{}, Ghosts: map[string]*Term{}}}
				ex.heapIfaces[key] = iv
				return iv
			}
			if ex.Mode == ModeInt {
				if _, _, isInt := intInfo(f.Type()); isInt {
					st.assume(ex.rangeFact(t, f.Type()))
					return Scalar{t}
				}
			}
			ex.reject("heapobj %s: field %s of type %s is not modelled", pv.Elem, f.Name(), f.Type())
		}
		ex.reject("load through unmodelled pointer")
	}
	return nil
}

// heapObjOf: the `heapobj` declaration of struct type t (a named type or an instance of a generic one), or nil.
func (ex *Exec) heapObjOf(t types.Type) map[string]string {
	if t == nil || len(ex.P.CS.HeapObjs) == 0 {
		return nil
	}
	n, ok := types.Unalias(t).(*types.Named)
	if !ok {
		return nil
	}
	o := n.Origin().Obj()
	if o.Pkg() == nil {
		return nil
	}
	return ex.P.CS.HeapObjs[o.Pkg().Path()+"."+o.Name()]
}

func (ex *Exec) elemVal(elem types.Type, t *Term) Val {
	if _, ok := ex.elemSort(elem); ok {
		return Scalar{t}
	}
	if isBigIntPtr(elem) {
		return PtrV{K: PBig, Ref: t, Elem: elem.(*types.Pointer).Elem()}
	}
	return OpaqueV{Typ: elem, Id: t}
}

func (ex *Exec) elemTerm(v Val) *Term {
	switch x := v.(type) {
	case Scalar:
		return x.T
	case OpaqueV:
		return x.Id
	case PtrV:
		if x.K == PBig || x.K == POpaque {
			return x.Ref
		}
		if x.K == PNil {
			return IntC(0)
		}
	}
	if _, ok := v.(SliceV); ok {
		// slices stored as elements of a slice ([][]byte): identity only, contents are not tracked
		return ex.fresh("elemid", IntSort)
	}
	if _, ok := v.(IfaceV); ok {
		return ex.fresh("elemid", IntSort)
	}
	ex.reject("cannot store value %s into an array region", valString(v))
	return nil
}

func setPath(v Val, path []int, nv Val) Val {
	if len(path) == 0 {
		return nv
	}
	sv := v.(StructV)
	nf := append([]Val{}, sv.F...)
	nf[path[0]] = setPath(sv.F[path[0]], path[1:], nv)
	return StructV{Typ: sv.Typ, F: nf}
}

func (ex *Exec) store(st *State, p Val, v Val, site string) {
	pv, ok := p.(PtrV)
	if !ok {
		ex.reject("store through non-pointer %s", valString(p))
	}
	switch pv.K {
	case PNil:
		ex.safety(st, "nil-deref", site, False)
	case PCell:
		old := st.Cells[pv.Cell]
		st.Cells[pv.Cell] = setPath(old, pv.Path, v)
	case PElem:
		ex.regionStore(st, pv.Region, pv.Idx, pv.Path, v)
	default:
		ex.reject("store through unmodelled pointer")
	}
}

// safety records an obligation that cond holds here.
func (ex *Exec) safety(st *State, kind, site string, cond *Term) {
	if cond.IsTrue() {
		return
	}
	ex.Side = append(ex.Side, SideObl{Name: "safety." + kind + "@" + site, PC: append([]*Term{}, st.PC...), Cond: cond})
	st.assume(cond)
}

func (ex *Exec) site(fr *Frame, kind string) string {
	key := fr.Fn.String() + "/" + kind
	_ = key
	return ""
}

// ---------- running ----------

func (ex *Exec) val(fr *Frame, v ssa.Value, st *State) Val {
	switch x := v.(type) {
	case *ssa.Const:
		return ex.constVal(st, x)
	case *ssa.Function:
		return ClosureV{Fn: x}
	case *ssa.Global:
		return ex.globalPtr(st, x)
	case *ssa.FreeVar:
		for i, fv := range fr.Fn.FreeVars {
			if fv == x {
				return fr.Bind[i]
			}
		}
		ex.reject("free var %s not bound", x.Name())
	case *ssa.Builtin:
		return OpaqueV{Typ: x.Type(), Id: IntC(0)}
	}
	r, ok := fr.Vals[v]
	if !ok {
		ex.reject("value %s (%T) undefined in %s", v.Name(), v, fr.Fn)
	}
	return r
}

func (ex *Exec) constVal(st *State, c *ssa.Const) Val {
	t := c.Type()
	if c.Value == nil {
		return ex.zeroVal(st, t)
	}
	switch c.Value.Kind() {
	case constant.Bool:
		return Scalar{BoolC(constant.BoolVal(c.Value))}
	case constant.Int:
		bi, ok := new(big.Int).SetString(c.Value.ExactString(), 10)
		if !ok {
			ex.reject("bad int const %s", c.Value)
		}
		if _, _, isInt := intInfo(t); !isInt {
			ex.reject("int const of non-int type %s", t)
		}
		return Scalar{ex.intConst(bi, t)}
	case constant.String:
		s := constant.StringVal(c.Value)
		return StringV{Id: IntC(int64(strHash(s))), Len: ex.idxConst(int64(len(s))), Lit: &s}
	}
	ex.reject("unsupported constant %s of type %s", c.Value, t)
	return nil
}

func strHash(s string) uint32 {
	var h uint32 = 2166136261
	for i := 0; i < len(s); i++ {
		h ^= uint32(s[i])
		h *= 16777619
	}
	return h&0x3fffffff + 1
}

// globals: each global is a cell; *big.Int globals get a fixed ref with a dumped constant value.
func (ex *Exec) globalPtr(st *State, g *ssa.Global) Val {
	name := g.Pkg.Pkg.Path() + "." + g.Name()
	c := ex.globalCell(st, name, g.Type().(*types.Pointer).Elem())
	return PtrV{K: PCell, Cell: c, Elem: g.Type().(*types.Pointer).Elem()}
}

func (ex *Exec) globalCell(st *State, name string, t types.Type) *Cell {
	if ex.globalCells == nil {
		ex.globalCells = map[string]*Cell{}
	}
	c, ok := ex.globalCells[name]
	if !ok {
		c = &Cell{Name: "global:" + name, id: -len(ex.globalCells) - 1}
		ex.globalCells[name] = c
	}
	if _, have := st.Cells[c]; !have {
		// materialise lazily in the entry state of this path (globals are immutable by assumption)
		if isBigIntPtr(t) {
			id, ok := ex.P.BigGlobals[name]
			if !ok {
				ex.reject("global *big.Int %s has no dumped value", name)
			}
			st.Cells[c] = PtrV{K: PBig, Ref: IntC(int64(id)), Elem: t.(*types.Pointer).Elem()}
			if ex.constSeen == nil {
				ex.constSeen = map[string]bool{}
			}
			if !ex.constSeen[name] {
				ex.constSeen[name] = true
				bi, _ := newBig(ex.P.Consts[name])
				ex.Assumes = append(ex.Assumes, Eq(Select(Sym("heap0", ArraySort(IntSort, IntSort)), IntC(int64(id))), IntBig(bi)))
			}
		} else if cv, ok := ex.P.Consts[name]; ok && isIntType(t) && isDecimal(cv) {
			bi, _ := new(big.Int).SetString(cv, 10)
			st.Cells[c] = Scalar{ex.intConst(bi, t)}
		} else {
			// symbolic but fixed (same symbol names on every path: created via deterministic names)
			save := ex.Inputs
			gv := ex.symValNamed(st, "g!"+shortName(name), t)
			ex.Inputs = save
			if iv, ok := gv.(IfaceV); ok {
				// interface-typed globals (error values): nil-ness read from the real initialisers
				if cv, ok := ex.P.Consts[name]; ok {
					if ex.constSeen == nil {
						ex.constSeen = map[string]bool{}
					}
					if !ex.constSeen[name] {
						ex.constSeen[name] = true
						if cv == "nil" {
							ex.Assumes = append(ex.Assumes, Eq(iv.Kind, IntC(0)))
						} else {
							ex.Assumes = append(ex.Assumes, Neq(iv.Kind, IntC(0)))
							// the dynamic type too, when the dump names a type of the loaded program ("nonnil:pkg.Type")
							// (only a type of the global's own package: %T prints the package name, not its path)
							if tn := strings.TrimPrefix(cv, "nonnil:"); tn != cv && !strings.HasPrefix(tn, "*") {
								pkgPath := name[:strings.LastIndex(name, ".")]
								base := pkgPath[strings.LastIndex(pkgPath, "/")+1:]
								if d := strings.Index(tn, "."); d > 0 && tn[:d] == base {
									if dt := ex.P.LookupType(pkgPath+"."+tn[d+1:], nil); dt != nil {
										ex.Assumes = append(ex.Assumes, Eq(iv.Kind, IntC(int64(ex.P.TypeTag(dt)))))
									}
								}
							}
						}
					}
				}
			}
			// pointers to structs: the pointee's integer fields were read from the real initialisers ("Name->field")
			if pv, ok := gv.(PtrV); ok && pv.K == PCell {
				// one pointee cell per global, whichever path materialises it first
				if pc, have := ex.globalCells[name+"->*"]; have && pc != pv.Cell {
					st.Cells[pc] = st.Cells[pv.Cell]
					delete(st.Cells, pv.Cell)
					pv.Cell = pc
					gv = pv
				} else {
					ex.globalCells[name+"->*"] = pv.Cell
				}
				if sv, ok := st.Cells[pv.Cell].(StructV); ok {
					stt := sv.Typ.Underlying().(*types.Struct)
					nf := append([]Val{}, sv.F...)
					for i := 0; i < stt.NumFields(); i++ {
						fname := name + "->" + stt.Field(i).Name()
						cv, ok := ex.P.Consts[fname]
						if !ok {
							continue
						}
						if isBigIntPtr(stt.Field(i).Type()) {
							// a *big.Int field of the pointee: a fixed reference whose value was read from the initialiser
							if cv == "nil" {
								nf[i] = PtrV{K: PBig, Ref: IntC(0), Elem: stt.Field(i).Type().(*types.Pointer).Elem()}
								continue
							}
							id, have := ex.P.BigGlobals[fname]
							if !have {
								continue
							}
							nf[i] = PtrV{K: PBig, Ref: IntC(int64(id)), Elem: stt.Field(i).Type().(*types.Pointer).Elem()}
							if ex.constSeen == nil {
								ex.constSeen = map[string]bool{}
							}
							if !ex.constSeen[fname] {
								ex.constSeen[fname] = true
								bi, _ := newBig(cv)
								ex.Assumes = append(ex.Assumes, Eq(Select(Sym("heap0", ArraySort(IntSort, IntSort)), IntC(int64(id))), IntBig(bi)))
							}
							continue
						}
						if bi, ok := new(big.Int).SetString(cv, 10); ok {
							nf[i] = Scalar{ex.intConst(bi, stt.Field(i).Type())}
						}
					}
					st.Cells[pv.Cell] = StructV{Typ: sv.Typ, F: nf}
				}
			}
			// structs of integers whose field values were read from the real initialisers
			if sv, ok := gv.(StructV); ok {
				stt := sv.Typ.Underlying().(*types.Struct)
				nf := append([]Val{}, sv.F...)
				for i := 0; i < stt.NumFields(); i++ {
					if cv, ok := ex.P.Consts[name+"."+stt.Field(i).Name()]; ok {
						if bi, ok := new(big.Int).SetString(cv, 10); ok {
							nf[i] = Scalar{ex.intConst(bi, stt.Field(i).Type())}
						}
					}
				}
				gv = StructV{Typ: sv.Typ, F: nf}
			}
			st.Cells[c] = gv
		}
	}
	return c
}

func shortName(n string) string {
	if i := strings.LastIndex(n, "/"); i >= 0 {
		n = n[i+1:]
	}
	return n
}

// symValNamed: deterministic symbolic value (no fresh counter in names), range facts recorded once.
func (ex *Exec) symValNamed(st *State, name string, t types.Type) Val {
	return ex.symVal(st, name, t, 3)
}

// Run symbolically executes the function from the entry state.
func (ex *Exec) Run(st *State) {
	for {
		ex.steps++
		if ex.MaxStep > 0 && ex.steps > ex.MaxStep {
			ex.reject("step budget exceeded (%d)", ex.MaxStep)
		}
		fr := st.top()
		if fr.Idx == 0 {
			// phis
			n := 0
			var newVals []Val
			for _, ins := range fr.Block.Instrs {
				phi, ok := ins.(*ssa.Phi)
				if !ok {
					break
				}
				n++
				pi := -1
				for i, p := range fr.Block.Preds {
					if p == fr.Pred {
						pi = i
					}
				}
				if pi < 0 {
					ex.reject("phi without matching pred")
				}
				newVals = append(newVals, ex.val(fr, phi.Edges[pi], st))
			}
			for i := 0; i < n; i++ {
				phi := fr.Block.Instrs[i].(*ssa.Phi)
				fr.Vals[phi] = newVals[i]
				if phi.Comment != "" {
					fr.Names[phi.Comment] = nameRef{V: newVals[i], Typ: phi.Type()}
				}
			}
			fr.Idx = n
			if fr.Pending != nil {
				pc := fr.Pending
				fr.Pending = nil
				if ex.loopCutAfterPhis(st, fr, pc) {
					return
				}
			}
		}
		if fr.Idx >= len(fr.Block.Instrs) {
			ex.reject("fell off block")
		}
		ins := fr.Block.Instrs[fr.Idx]
		fr.Idx++
		if done := ex.step(st, fr, ins); done {
			return
		}
	}
}

func (ex *Exec) siteName(fr *Frame, ins ssa.Instruction, kind string) string {
	// ordinal of this kind within the (outermost named) function, stable against line changes
	fn := fr.Fn
	key := fn.String() + "|" + kind
	if ex.siteCnt == nil {
		ex.siteCnt = map[string]int{}
	}
	// compute ordinal by scanning the function once per (fn,kind,ins)
	ord := 0
	found := false
	for _, b := range fn.Blocks {
		for _, i2 := range b.Instrs {
			if sameSiteKind(i2, kind) {
				ord++
				if i2 == ins {
					found = true
					break
				}
			}
		}
		if found {
			break
		}
	}
	_ = key
	short := fn.Name()
	if fn.Parent() != nil {
		short = fn.Parent().Name() + "." + fn.Name()
	}
	if fn != ex.Fn {
		return fmt.Sprintf("%s:%s#%d", short, kind, ord)
	}
	return fmt.Sprintf("%s#%d", kind, ord)
}

func sameSiteKind(i ssa.Instruction, kind string) bool {
	switch kind {
	case "index":
		switch i.(type) {
		case *ssa.IndexAddr, *ssa.Index:
			return true
		}
	case "slice":
		_, ok := i.(*ssa.Slice)
		return ok
	case "div":
		if b, ok := i.(*ssa.BinOp); ok {
			return b.Op == token.QUO || b.Op == token.REM
		}
	case "shift":
		if b, ok := i.(*ssa.BinOp); ok {
			return b.Op == token.SHL || b.Op == token.SHR
		}
	case "typeassert":
		_, ok := i.(*ssa.TypeAssert)
		return ok
	case "nil":
		switch i.(type) {
		case *ssa.UnOp, *ssa.Store, *ssa.FieldAddr, *ssa.Call:
			return true
		}
	case "make":
		_, ok := i.(*ssa.MakeSlice)
		return ok
	case "call":
		_, ok := i.(*ssa.Call)
		return ok
	}
	return false
}

func (ex *Exec) jump(st *State, fr *Frame, target *ssa.BasicBlock) (stop bool) {
	li := ex.loops(fr.Fn)
	fr.Pred = fr.Block
	from := fr.Block
	fr.Block = target
	fr.Idx = 0
	if ord, isHeader := li.headers[target.Index]; isHeader {
		var spec *LoopSpec
		if c := ex.contractFor(fr.Fn); c != nil {
			spec = c.Loops[ord]
		}
		if spec == nil {
			ex.reject("loop %d of %s has neither invariant nor unroll bound", ord, fr.Fn)
		}
		back := li.dominates(target, from)
		if len(spec.Invariants) > 0 {
			return ex.loopCut(st, fr, target, ord, spec, back)
		}
		fr.Visits[target.Index]++
		if fr.Visits[target.Index] > spec.Unroll+1 {
			// unwinding assertion: this path must be infeasible
			ex.Side = append(ex.Side, SideObl{Name: fmt.Sprintf("loop.%d.unwind", ord) + ex.fnSuffix(fr), PC: append([]*Term{}, st.PC...), Cond: False})
			return true
		}
	}
	return false
}

func (ex *Exec) fnSuffix(fr *Frame) string {
	if fr.Fn == ex.Fn {
		return ""
	}
	return "@" + fr.Fn.Name()
}

func (ex *Exec) contractFor(fn *ssa.Function) *Contract {
	for f := fn; f != nil; f = f.Parent() {
		if f == ex.Fn && ex.C != nil {
			return ex.C
		}
		if c, ok := ex.P.CS.Funcs[f.String()]; ok {
			return c
		}
		// inlined function that only has instance contracts: the loop clauses of any instance apply
		if insts := ex.P.CS.Instances[f.String()]; len(insts) > 0 {
			return ex.P.CS.Funcs[insts[0]]
		}
	}
	return nil
}

// step executes one instruction; returns true when the path ended.
func (ex *Exec) step(st *State, fr *Frame, ins ssa.Instruction) bool {
	switch x := ins.(type) {
	case *ssa.DebugRef:
		if id, ok := x.Expr.(*ast.Ident); ok {
			if v, have := fr.Vals[x.X]; have {
				fr.Names[id.Name] = nameRef{V: v, IsAddr: x.IsAddr, Typ: debugRefType(x)}
			} else if _, isC := x.X.(*ssa.Const); isC {
				fr.Names[id.Name] = nameRef{V: ex.val(fr, x.X, st), IsAddr: false, Typ: x.X.Type()}
			}
		}
	case *ssa.Alloc:
		elem := x.Type().(*types.Pointer).Elem()
		if isBigIntPtr(x.Type()) {
			ex.nref++
			ref := IntC(int64(-ex.nref))
			// a fresh allocation is distinct from every reference that existed before it
			for _, rs := range ex.bigRefSyms {
				st.assume(Neq(rs, ref))
			}
			st.Big = ex.def("heap", Store(st.Big, ref, IntC(0)))
			fr.Vals[x] = PtrV{K: PBig, Ref: ref, Elem: elem}
			break
		}
		c := ex.newCell(x.Comment)
		if at, ok := elem.Underlying().(*types.Array); ok {
			av := ex.zeroVal(st, at).(ArrayV)
			st.Cells[c] = av
		} else {
			st.Cells[c] = ex.zeroVal(st, elem)
		}
		fr.Vals[x] = PtrV{K: PCell, Cell: c, Elem: elem}
	case *ssa.Store:
		ex.store(st, ex.val(fr, x.Addr, st), ex.val(fr, x.Val, st), ex.siteName(fr, ins, "nil"))
	case *ssa.UnOp:
		fr.Vals[x] = ex.unop(st, fr, x)
	case *ssa.BinOp:
		fr.Vals[x] = ex.binop(st, fr, x)
	case *ssa.Convert:
		fr.Vals[x] = ex.convert(st, ex.val(fr, x.X, st), x.X.Type(), x.Type())
	case *ssa.ChangeType:
		v := ex.val(fr, x.X, st)
		if sv, ok := v.(StructV); ok {
			// a struct value converted to another named type of the same shape carries its new type
			sv.Typ = x.Type()
			v = sv
		}
		fr.Vals[x] = v
	case *ssa.ChangeInterface:
		fr.Vals[x] = ex.val(fr, x.X, st)
	case *ssa.MakeInterface:
		v := ex.val(fr, x.X, st)
		fr.Vals[x] = IfaceV{Kind: IntC(int64(ex.P.TypeTag(x.X.Type()))), Conc: x.X.Type(), Payload: v}
	case *ssa.TypeAssert:
		fr.Vals[x] = ex.typeAssert(st, fr, x)
	case *ssa.Extract:
		t := ex.val(fr, x.Tuple, st).(TupleV)
		fr.Vals[x] = t.E[x.Index]
	case *ssa.FieldAddr:
		p := ex.val(fr, x.X, st).(PtrV)
		switch p.K {
		case PCell:
			np := p
			np.Path = append(append([]int{}, p.Path...), x.Field)
			st0 := x.X.Type().Underlying().(*types.Pointer).Elem().Underlying().(*types.Struct)
			np.Elem = st0.Field(x.Field).Type()
			fr.Vals[x] = np
		case PElem:
			if len(p.Region.Sub) == 0 || len(p.Path) != 0 {
				ex.reject("FieldAddr into an element of %s", p.Region.Name)
			}
			np := p
			np.Path = []int{x.Field}
			fr.Vals[x] = np
		case PNil:
			ex.safety(st, "nil-deref", ex.siteName(fr, ins, "nil"), False)
			return true
		case POpaque:
			if ex.heapObjOf(p.Elem) == nil || len(p.Path) != 0 {
				ex.reject("FieldAddr on unmodelled pointer %s", valString(p))
			}
			ex.safety(st, "nil-deref", ex.siteName(fr, ins, "nil"), Not(Eq(p.Ref, IntC(0))))
			np := p
			np.Path = []int{x.Field}
			fr.Vals[x] = np
		default:
			ex.reject("FieldAddr on unmodelled pointer %s", valString(p))
		}
	case *ssa.Field:
		sv, ok := ex.val(fr, x.X, st).(StructV)
		if !ok {
			ex.reject("Field of non-struct")
		}
		fr.Vals[x] = sv.F[x.Field]
	case *ssa.IndexAddr:
		fr.Vals[x] = ex.indexAddr(st, fr, x)
	case *ssa.Index:
		fr.Vals[x] = ex.index(st, fr, x)
	case *ssa.Slice:
		fr.Vals[x] = ex.sliceOp(st, fr, x)
	case *ssa.MakeSlice:
		fr.Vals[x] = ex.makeSlice(st, fr, x)
	case *ssa.MakeClosure:
		var bind []Val
		for _, b := range x.Bindings {
			bind = append(bind, ex.val(fr, b, st))
		}
		fr.Vals[x] = ClosureV{Fn: x.Fn.(*ssa.Function), Bind: bind}
	case *ssa.Phi:
		ex.reject("phi in the middle of a block")
	case *ssa.Call:
		return ex.call(st, fr, x)
	case *ssa.Defer:
		var args []Val
		for _, a := range x.Call.Args {
			args = append(args, ex.val(fr, a, st))
		}
		if x.Call.IsInvoke() {
			ex.reject("deferred interface call")
		}
		fr.Defers = append(fr.Defers, deferred{Fn: ex.val(fr, x.Call.Value, st), Args: args})
	case *ssa.RunDefers:
		if len(fr.Defers) > 0 {
			return ex.runDefers(st, fr)
		}
	case *ssa.If:
		c := ex.val(fr, x.Cond, st).(Scalar).T
		succ := fr.Block.Succs
		if c.IsTrue() {
			return ex.jump(st, fr, succ[0])
		}
		if c.IsFalse() {
			return ex.jump(st, fr, succ[1])
		}
		c = ex.def("c", c)
		// a condition already decided on this path (same term): only the consistent branch is feasible
		cs, ncs := c.String(), Not(c).String()
		for _, pcT := range st.PC {
			ps := pcT.String()
			if ps == cs {
				return ex.jump(st, fr, succ[0])
			}
			if ps == ncs {
				return ex.jump(st, fr, succ[1])
			}
		}
		if ex.tryMerge(st, fr, c) {
			return false
		}
		other := st.clone()
		other.assume(Not(c))
		ofr := other.top()
		if !ex.jump(other, ofr, succ[1]) {
			ex.Run(other)
		}
		st.assume(c)
		return ex.jump(st, fr, succ[0])
	case *ssa.Jump:
		return ex.jump(st, fr, fr.Block.Succs[0])
	case *ssa.Return:
		var rets []Val
		for _, r := range x.Results {
			rets = append(rets, ex.val(fr, r, st))
		}
		return ex.doReturn(st, fr, rets)
	case *ssa.Panic:
		v := ex.val(fr, x.X, st)
		if iv, ok := v.(IfaceV); ok && iv.Conc == nil && iv.Sym != nil {
			// panic with a value of symbolic dynamic type (re-panic of an error returned by a callee):
			// one path per failure kind the contract mentions, and one for "anything else"
			var cands []string
			seen := map[string]bool{}
			if iv.Sym.PanicKind != "" {
				// an error value handed back by a callee whose contract names the failure kind it stands for
				// (option errorkind=K, e.g. errors of the host's random source): re-raising it is a failure
				// of that kind, whatever its Go type
				return ex.doPanic(st, &PanicInfo{Kind: iv.Sym.PanicKind, Val: v})
			}
			for _, f := range ex.C.Fails {
				for _, k := range f.Kinds {
					if !seen[k] {
						seen[k] = true
						cands = append(cands, k)
					}
				}
			}
			for _, k := range ex.C.Env {
				if !seen[k] {
					seen[k] = true
					cands = append(cands, k)
				}
			}
			var none []*Term
			for _, k := range cands {
				var alts []*Term
				for _, t := range ex.P.named {
					tt := t
					if p, isP := tt.(*types.Pointer); isP {
						tt = p.Elem()
					}
					if n, isN := tt.(*types.Named); isN && n.Obj().Name() == k {
						alts = append(alts, Eq(iv.Kind, IntC(int64(ex.P.TypeTag(t)))))
					}
				}
				cond := Or(alts...)
				if cond.IsFalse() {
					continue
				}
				none = append(none, Not(cond))
				ps := st.clone()
				ps.assume(cond)
				ex.doPanic(ps, &PanicInfo{Kind: k, Val: v})
			}
			st.assume(And(none...))
			return ex.doPanic(st, &PanicInfo{Kind: "?", Val: v})
		}
		return ex.doPanic(st, &PanicInfo{Kind: ex.panicKind(v), Val: v})
	case *ssa.MakeMap, *ssa.MapUpdate, *ssa.Lookup:
		return ex.mapInstr(st, fr, ins)
	default:
		ex.reject("unsupported SSA instruction %T (%s) in %s", ins, ins, fr.Fn)
	}
	return false
}

func (ex *Exec) panicKind(v Val) string {
	if iv, ok := v.(IfaceV); ok && iv.Conc != nil {
		t := iv.Conc
		if p, ok := t.(*types.Pointer); ok {
			t = p.Elem()
		}
		if n, ok := t.(*types.Named); ok {
			return n.Obj().Name()
		}
		return typeKey(t)
	}
	return "?"
}

func (ex *Exec) doReturn(st *State, fr *Frame, rets []Val) bool {
	if len(fr.Defers) > 0 {
		ex.reject("return with pending defers not via RunDefers")
	}
	st.Frames = st.Frames[:len(st.Frames)-1]
	if len(st.Frames) == 0 {
		ex.Exits = append(ex.Exits, &Exit{PC: append([]*Term{}, st.PC...), Ret: rets, St: st})
		return true
	}
	caller := st.top()
	if fr.RetTo != nil {
		switch len(rets) {
		case 0:
		case 1:
			caller.Vals[fr.RetTo] = rets[0]
		default:
			caller.Vals[fr.RetTo] = TupleV{E: rets}
		}
	}
	return false
}

func (ex *Exec) doPanic(st *State, pi *PanicInfo) bool {
	// unwind frames; frames with pending defers are rejected unless handled by runDefers
	for len(st.Frames) > 0 {
		fr := st.top()
		if len(fr.Defers) > 0 {
			st.Panic = pi
			return ex.runDefersPanicking(st, fr)
		}
		st.Frames = st.Frames[:len(st.Frames)-1]
	}
	ex.Exits = append(ex.Exits, &Exit{PC: append([]*Term{}, st.PC...), Panic: pi, St: st})
	return true
}

func (ex *Exec) runDefers(st *State, fr *Frame) bool {
	ex.reject("defer not supported yet in %s", fr.Fn)
	return true
}

func (ex *Exec) runDefersPanicking(st *State, fr *Frame) bool {
	ex.reject("defer not supported yet in %s", fr.Fn)
	return true
}

func (ex *Exec) mapInstr(st *State, fr *Frame, ins ssa.Instruction) bool {
	return ex.mapStep(st, fr, ins)
}

// ---------- operators ----------

func (ex *Exec) unop(st *State, fr *Frame, x *ssa.UnOp) Val {
	v := ex.val(fr, x.X, st)
	switch x.Op {
	case token.MUL:
		r := ex.load(st, v, ex.siteName(fr, x, "nil"))
		if r == nil {
			ex.reject("nil deref")
		}
		return r
	case token.NOT:
		return Scalar{Not(v.(Scalar).T)}
	case token.SUB:
		t := v.(Scalar).T
		if ex.Mode == ModeBV {
			return Scalar{App("bvneg", t.S, t)}
		}
		bits, signed, _ := intInfo(x.Type())
		return Scalar{IWrap(INeg(t), bits, signed)}
	case token.XOR:
		t := v.(Scalar).T
		if ex.Mode == ModeBV {
			return Scalar{App("bvnot", t.S, t)}
		}
		bits, signed, _ := intInfo(x.Type())
		if signed {
			return Scalar{ISub(INeg(t), IntC(1))}
		}
		return Scalar{ISub(IntBig(new(big.Int).Sub(Pow2(bits), big.NewInt(1))), t)}
	}
	ex.reject("unsupported unary op %s", x.Op)
	return nil
}

func (ex *Exec) binop(st *State, fr *Frame, x *ssa.BinOp) Val {
	a := ex.val(fr, x.X, st)
	b := ex.val(fr, x.Y, st)
	xt := x.X.Type()
	// non-integer comparisons
	if x.Op == token.EQL || x.Op == token.NEQ {
		if _, _, isInt := intInfo(xt); !isInt {
			eq := ex.valEq(st, a, b, xt)
			if x.Op == token.NEQ {
				eq = Not(eq)
			}
			return Scalar{eq}
		}
	}
	if isBool(xt) {
		at, bt := a.(Scalar).T, b.(Scalar).T
		switch x.Op {
		case token.AND, token.LAND:
			return Scalar{And(at, bt)}
		case token.OR, token.LOR:
			return Scalar{Or(at, bt)}
		}
	}
	bits, signed, ok := intInfo(xt)
	if !ok {
		ex.reject("binop %s on unsupported type %s", x.Op, xt)
	}
	at, bt := a.(Scalar).T, b.(Scalar).T
	if ex.Mode == ModeBV {
		return Scalar{ex.def(x.Name(), ex.bvBinop(st, fr, x, at, bt, bits, signed))}
	}
	var r *Term
	switch x.Op {
	case token.ADD:
		r = IWrap(IAdd(at, bt), bits, signed)
	case token.SUB:
		r = IWrap(ISub(at, bt), bits, signed)
	case token.MUL:
		r = IWrap(IMul(at, bt), bits, signed)
	case token.QUO:
		ex.safety(st, "div", ex.siteName(fr, x, "div"), Neq(bt, IntC(0)))
		r = IWrap(ITDiv(at, bt), bits, signed)
	case token.REM:
		ex.safety(st, "div", ex.siteName(fr, x, "div"), Neq(bt, IntC(0)))
		r = ITRem(at, bt)
	case token.EQL:
		r = Eq(at, bt)
	case token.NEQ:
		r = Neq(at, bt)
	case token.LSS:
		r = ILt(at, bt)
	case token.LEQ:
		r = ILe(at, bt)
	case token.GTR:
		r = IGt(at, bt)
	case token.GEQ:
		r = IGe(at, bt)
	case token.SHL, token.SHR:
		_, ysigned, _ := intInfo(x.Y.Type())
		if ysigned {
			ex.safety(st, "shift", ex.siteName(fr, x, "shift"), IGe(bt, IntC(0)))
		}
		if x.Op == token.SHL {
			r = Ite(IGe(bt, IntC(int64(bits))), IntC(0), IWrap(IMul(at, ex.pow2Term(bt, bits)), bits, signed))
		} else {
			neg := IntC(0)
			if signed {
				neg = Ite(ILt(at, IntC(0)), IntC(-1), IntC(0))
			}
			r = Ite(IGe(bt, IntC(int64(bits))), neg, IFDiv(at, ex.pow2Term(bt, bits)))
		}
	case token.AND, token.OR, token.XOR, token.AND_NOT:
		r = ex.intBitop(x.Op, at, bt, bits, signed)
	default:
		ex.reject("unsupported binary op %s", x.Op)
	}
	return Scalar{ex.def(x.Name(), r)}
}

// pow2Term: 2^y for 0 <= y < bits as an ite chain (Int mode)
func (ex *Exec) pow2Term(y *Term, bits int) *Term {
	if y.IsConst() {
		if y.Val.IsInt64() && y.Val.Int64() >= 0 && y.Val.Int64() < 4096 {
			return IntBig(Pow2(int(y.Val.Int64())))
		}
	}
	if bits > 64 {
		// wide exponents: 2^y stays uninterpreted (pow2u); only the bounds a proof may need are supplied, as
		// instances for this very exponent term. Products/quotients by pow2u(y) then match syntactically on both
		// sides of an obligation instead of being case-split 256 ways (which the solvers do not finish, measured).
		ex.Funs["0uf_pow2u"] = "(declare-fun pow2u (Int) Int)"
		t := App("pow2u", IntSort, y)
		key := "pow2u:" + y.String()
		if ex.constSeen == nil {
			ex.constSeen = map[string]bool{}
		}
		if !ex.constSeen[key] {
			ex.constSeen[key] = true
			facts := []*Term{IGe(t, IntC(1))}
			for _, k := range []int{8, 16, 32, 64, 127, 128, 255, 256} {
				facts = append(facts, Implies(IGe(y, IntC(int64(k))), IGe(t, IntBig(Pow2(k)))))
				facts = append(facts, Implies(ILt(y, IntC(int64(k))), ILt(t, IntBig(Pow2(k)))))
			}
			facts = append(facts, Implies(Eq(y, IntC(0)), Eq(t, IntC(1))))
			// exact table: only used to refine a counterexample (it slows proofs down badly, measured)
			for k := 0; k <= 256; k++ {
				ex.Refine = append(ex.Refine, Implies(Eq(y, IntC(int64(k))), Eq(t, IntBig(Pow2(k)))))
			}
			ex.Assumes = append(ex.Assumes, And(facts...))
		}
		return t
	}
	name := fmt.Sprintf("pow2_%d", bits)
	if _, ok := ex.Funs[name]; !ok {
		var b strings.Builder
		fmt.Fprintf(&b, "(define-fun %s ((y Int)) Int ", name)
		for i := 0; i < bits; i++ {
			fmt.Fprintf(&b, "(ite (= y %d) %s ", i, Pow2(i).String())
		}
		b.WriteString("1")
		b.WriteString(strings.Repeat(")", bits))
		b.WriteString(")")
		ex.Funs[name] = b.String()
	}
	return App(name, IntSort, y)
}

// mapIteConst applies f to the constant leaves of a tree of ite's over constants (a value chosen by a case
// distinction, such as an attribute that is a function of a kind); nil if t is not of that shape.
func mapIteConst(t *Term, depth int, f func(*Term) *Term) *Term {
	if t.IsConst() {
		return f(t)
	}
	if t.Op == "ite" && len(t.Args) == 3 && depth < 64 {
		l := mapIteConst(t.Args[1], depth+1, f)
		if l == nil {
			return nil
		}
		r := mapIteConst(t.Args[2], depth+1, f)
		if r == nil {
			return nil
		}
		return Ite(t.Args[0], l, r)
	}
	return nil
}

func (ex *Exec) intBitop(op token.Token, a, b *Term, bits int, signed bool) *Term {
	// a constant combined with a case distinction over constants: computed per case
	if a.IsConst() != b.IsConst() {
		if a.IsConst() {
			if r := mapIteConst(b, 0, func(k *Term) *Term { return ex.intBitop(op, a, k, bits, signed) }); r != nil {
				return r
			}
		} else if r := mapIteConst(a, 0, func(k *Term) *Term { return ex.intBitop(op, k, b, bits, signed) }); r != nil {
			return r
		}
	}
	// constant masks of the form 2^k-1 on non-negative values: x & mask = x mod 2^k
	if op == token.AND && !signed {
		for _, p := range [][2]*Term{{a, b}, {b, a}} {
			if p[1].IsConst() {
				m := new(big.Int).Add(p[1].Val, big.NewInt(1))
				if m.Sign() > 0 && new(big.Int).And(m, p[1].Val).Sign() == 0 {
					return IModE(p[0], IntBig(m))
				}
			}
		}
	}
	// single-bit test on a non-negative value: x & 2^k = ((x div 2^k) mod 2) * 2^k
	if op == token.AND && !signed {
		for _, p := range [][2]*Term{{a, b}, {b, a}} {
			if p[1].IsConst() && p[1].Val.Sign() > 0 && new(big.Int).And(p[1].Val, new(big.Int).Sub(p[1].Val, big.NewInt(1))).Sign() == 0 {
				return IMul(IModE(IDivE(p[0], IntBig(p[1].Val)), IntC(2)), IntBig(p[1].Val))
			}
		}
	}
	// x ^ 0xff..ff on an unsigned value of that width is the complement: (2^bits - 1) - x
	if op == token.XOR && !signed {
		for _, p := range [][2]*Term{{a, b}, {b, a}} {
			if p[1].IsConst() && !p[0].IsConst() && p[1].Val.Cmp(new(big.Int).Sub(Pow2(bits), big.NewInt(1))) == 0 {
				return ISub(p[1], p[0])
			}
		}
	}
	if a.IsConst() && b.IsConst() {
		var r big.Int
		switch op {
		case token.AND:
			r.And(a.Val, b.Val)
		case token.OR:
			r.Or(a.Val, b.Val)
		case token.XOR:
			r.Xor(a.Val, b.Val)
		case token.AND_NOT:
			r.AndNot(a.Val, b.Val)
		}
		return IntBig(&r)
	}
	name := map[token.Token]string{token.AND: "uf_and", token.OR: "uf_or", token.XOR: "uf_xor", token.AND_NOT: "uf_andnot"}[op]
	name = fmt.Sprintf("%s_%d", name, bits)
	if _, ok := ex.Funs[name]; !ok {
		ex.Funs[name] = fmt.Sprintf("(declare-fun %s (Int Int) Int)", name)
	}
	return App(name, IntSort, a, b)
}

func (ex *Exec) bvBinop(st *State, fr *Frame, x *ssa.BinOp, a, b *Term, bits int, signed bool) *Term {
	zero := BVC(big.NewInt(0), bits)
	pick := func(s, u string) string {
		if signed {
			return s
		}
		return u
	}
	switch x.Op {
	case token.ADD:
		return BVBin("bvadd", a, b)
	case token.SUB:
		return BVBin("bvsub", a, b)
	case token.MUL:
		return BVBin("bvmul", a, b)
	case token.QUO:
		ex.safety(st, "div", ex.siteName(fr, x, "div"), Neq(b, zero))
		return BVBin(pick("bvsdiv", "bvudiv"), a, b)
	case token.REM:
		ex.safety(st, "div", ex.siteName(fr, x, "div"), Neq(b, zero))
		return BVBin(pick("bvsrem", "bvurem"), a, b)
	case token.AND:
		return BVBin("bvand", a, b)
	case token.OR:
		return BVBin("bvor", a, b)
	case token.XOR:
		return BVBin("bvxor", a, b)
	case token.AND_NOT:
		return BVBin("bvand", a, App("bvnot", b.S, b))
	case token.EQL:
		return Eq(a, b)
	case token.NEQ:
		return Neq(a, b)
	case token.LSS:
		return BVCmp(pick("bvslt", "bvult"), a, b)
	case token.LEQ:
		return BVCmp(pick("bvsle", "bvule"), a, b)
	case token.GTR:
		return BVCmp(pick("bvsgt", "bvugt"), a, b)
	case token.GEQ:
		return BVCmp(pick("bvsge", "bvuge"), a, b)
	case token.SHL, token.SHR:
		ybits, ysigned, _ := intInfo(x.Y.Type())
		if ysigned {
			ex.safety(st, "shift", ex.siteName(fr, x, "shift"), BVCmp("bvsge", b, BVC(big.NewInt(0), ybits)))
		}
		// resize the count to the width of x, saturating
		var cnt *Term
		if ybits == bits {
			cnt = b
		} else if ybits < bits {
			cnt = BVZeroExt(bits-ybits, b)
		} else {
			big1 := BVCmp("bvuge", b, BVC(big.NewInt(int64(bits)), ybits))
			cnt = Ite(big1, BVC(big.NewInt(int64(bits)), bits), BVExtract(bits-1, 0, b))
		}
		if x.Op == token.SHL {
			return BVBin("bvshl", a, cnt)
		}
		return BVBin(pick("bvashr", "bvlshr"), a, cnt)
	}
	ex.reject("unsupported bv binary op %s", x.Op)
	return nil
}

func (ex *Exec) isNilIface(v IfaceV) *Term { return Eq(v.Kind, IntC(0)) }

// valEq: equality of non-integer values
func (ex *Exec) valEq(st *State, a, b Val, t types.Type) *Term {
	switch x := a.(type) {
	case Scalar:
		return Eq(x.T, b.(Scalar).T)
	case PtrV:
		y := b.(PtrV)
		if x.K == PNil && y.K == PNil {
			return True
		}
		if x.K == PBig || y.K == PBig {
			rx, ry := IntC(0), IntC(0)
			if x.K == PBig {
				rx = x.Ref
			}
			if y.K == PBig {
				ry = y.Ref
			}
			return Eq(rx, ry)
		}
		if x.K == PNil || y.K == PNil {
			o := x
			if x.K == PNil {
				o = y
			}
			if o.K == PCell || o.K == PElem {
				return False
			}
			if o.K == POpaque {
				return Eq(o.Ref, IntC(0))
			}
		}
		if x.K == PCell && y.K == PCell {
			return BoolC(x.Cell == y.Cell && fmt.Sprint(x.Path) == fmt.Sprint(y.Path))
		}
		if x.K == POpaque && y.K == POpaque {
			return Eq(x.Ref, y.Ref)
		}
	case IfaceV:
		y := b.(IfaceV)
		if y.Conc == nil && y.Sym == nil {
			return ex.isNilIface(x)
		}
		if x.Conc == nil && x.Sym == nil {
			return ex.isNilIface(y)
		}
		if x.Conc != nil && y.Conc != nil {
			// two boxed concrete values: equal iff same dynamic type and equal payloads
			if !types.Identical(x.Conc, y.Conc) {
				return False
			}
			return ex.valEq(st, x.Payload, y.Payload, x.Conc)
		}
		if (x.Sym != nil && y.Conc != nil) || (x.Conc != nil && y.Sym != nil) {
			// an interface value of unknown content compared with a boxed concrete value (switch staticType { case
			// PrimitiveStaticTypeInt8: ... }): same dynamic type and equal payload of that type
			s, c := x, y
			if x.Conc != nil {
				s, c = y, x
			}
			if _, isPtr := c.Conc.Underlying().(*types.Pointer); !isPtr {
				pl := ex.payload(st, s, c.Conc)
				if _, opaque := pl.(OpaqueV); !opaque {
					return And(Eq(s.Kind, IntC(int64(ex.P.TypeTag(c.Conc)))), ex.valEq(st, pl, c.Payload, c.Conc))
				}
			} else if pv, ok := c.Payload.(PtrV); ok && pv.K == PCell && len(pv.Path) == 0 {
				// a boxed pointer to a modelled object (switch targetType { case SignedFixedPointType: ... }): the unknown
				// value is that pointer iff it has the pointer's type and the object's identity (one constant per object)
				return And(Eq(s.Kind, IntC(int64(ex.P.TypeTag(c.Conc)))), Eq(ex.ifaceGhost(st, s, "identity"), IntC(int64(pv.Cell.id)-7000000)))
			}
		}
		if x.Sym != nil && y.Sym != nil {
			// two interface values of unknown content (err == rlp.ErrEmptyInput): the same value is equal to itself;
			// otherwise equal exactly when the dynamic types and the ghost attribute "identity" agree (a per-value
			// integer nothing else constrains: distinct sentinel values may or may not be the one returned)
			if x.Sym == y.Sym {
				return True
			}
			return And(Eq(x.Kind, y.Kind), Eq(ex.ifaceGhost(st, x, "identity"), ex.ifaceGhost(st, y, "identity")))
		}
	case SliceV:
		y := b.(SliceV)
		if y.Region == nil {
			if x.Region != nil && x.IsNil != nil {
				return x.IsNil
			}
			return BoolC(x.Region == nil)
		}
		if x.Region == nil {
			if y.IsNil != nil {
				return y.IsNil
			}
			return BoolC(y.Region == nil)
		}
	case StringV:
		y := b.(StringV)
		if x.Lit != nil && y.Lit != nil {
			return BoolC(*x.Lit == *y.Lit)
		}
		return Eq(x.Id, y.Id)
	case OpaqueV:
		if y, ok := b.(OpaqueV); ok {
			return Eq(x.Id, y.Id)
		}
		if y, ok := b.(PtrV); ok && y.K == PNil {
			return Eq(x.Id, IntC(0))
		}
	case MapV:
		// maps are only comparable with nil
		if y, ok := b.(MapV); ok && (x.Cell == nil || y.Cell == nil) {
			return BoolC(x.Cell == nil && y.Cell == nil)
		}
	case ClosureV:
		if y, ok := b.(PtrV); ok && y.K == PNil {
			return False
		}
	case StructV:
		y := b.(StructV)
		var parts []*Term
		s := x.Typ.Underlying().(*types.Struct)
		for i := range x.F {
			parts = append(parts, ex.valEq(st, x.F[i], y.F[i], s.Field(i).Type()))
		}
		return And(parts...)
	}
	ex.reject("unsupported equality between %s and %s", valString(a), valString(b))
	return nil
}

func (ex *Exec) convert(st *State, v Val, from, to types.Type) Val {
	fb, fs, fok := intInfo(from)
	tb, ts, tok := intInfo(to)
	if fok && tok {
		t := v.(Scalar).T
		if ex.Mode == ModeBV {
			switch {
			case tb == fb:
				return Scalar{t}
			case tb < fb:
				return Scalar{BVExtract(tb-1, 0, t)}
			case fs:
				return Scalar{BVSignExt(tb-fb, t)}
			default:
				return Scalar{BVZeroExt(tb-fb, t)}
			}
		}
		// Int mode: value preserved when representable, else wraps
		if t.IsConst() {
			return Scalar{IWrap(t, tb, ts)}
		}
		if (fs == ts && tb >= fb) || (!fs && ts && tb > fb) {
			return Scalar{t}
		}
		return Scalar{ex.def("conv", IWrap(t, tb, ts))}
	}
	if isString(from) && isString(to) {
		return v
	}
	if types.Identical(from.Underlying(), to.Underlying()) {
		return v
	}
	// pointer conversions between identical underlying types
	if _, ok := from.Underlying().(*types.Pointer); ok {
		if _, ok2 := to.Underlying().(*types.Pointer); ok2 {
			return v
		}
	}
	ex.reject("unsupported conversion %s -> %s", from, to)
	return nil
}

func (ex *Exec) typeAssert(st *State, fr *Frame, x *ssa.TypeAssert) Val {
	v, ok := ex.val(fr, x.X, st).(IfaceV)
	if !ok {
		ex.reject("typeassert on non-interface value")
	}
	var okT *Term
	var res Val
	_, toIface := x.AssertedType.Underlying().(*types.Interface)
	switch {
	case v.Conc != nil:
		if toIface {
			okT = BoolC(types.Implements(v.Conc, x.AssertedType.Underlying().(*types.Interface)))
			res = v
		} else {
			okT = BoolC(types.Identical(v.Conc, x.AssertedType))
			res = v.Payload
		}
	case v.Sym == nil:
		okT = False
		res = v
	default:
		if toIface {
			var alts []*Term
			for _, t := range ex.P.Implementors(x.AssertedType) {
				// must also implement the static type of X (else it could not be in there) - skip check, superset is sound for 'ok'
				alts = append(alts, Eq(v.Kind, IntC(int64(ex.P.TypeTag(t)))))
			}
			okT = ex.def("implements", Or(alts...))
			res = v
		} else {
			okT = Eq(v.Kind, IntC(int64(ex.P.TypeTag(x.AssertedType))))
			res = ex.payload(st, v, x.AssertedType)
		}
	}
	if !okT.IsTrue() || x.CommaOk {
		if !x.CommaOk {
			ex.safety(st, "typeassert", ex.siteName(fr, x, "typeassert"), okT)
		}
	}
	if okT.IsFalse() && !toIface {
		res = ex.zeroVal(st, x.AssertedType)
	}
	if x.CommaOk {
		return TupleV{E: []Val{res, Scalar{okT}}}
	}
	return res
}

// payload returns the (lazily created) payload of a symbolic interface value for concrete type t.
func (ex *Exec) payload(st *State, v IfaceV, t types.Type) Val {
	k := typeKey(t)
	if p, ok := v.Sym.Payloads[k]; ok {
		return p
	}
	p := ex.symVal(st, v.Sym.Name+"!"+shortType(t), t, 2)
	v.Sym.Payloads[k] = p
	ex.linkGhost(st, v, t, p)
	return p
}

func (ex *Exec) indexAddr(st *State, fr *Frame, x *ssa.IndexAddr) Val {
	base := ex.val(fr, x.X, st)
	site := ex.siteName(fr, x, "index")
	idx := ex.toIdxNoWrap(st, site, ex.val(fr, x.Index, st).(Scalar).T, x.Index.Type())
	switch b := base.(type) {
	case SliceV:
		if b.Region == nil {
			ex.safety(st, "index", site, False)
			return PtrV{K: PNil}
		}
		ex.safety(st, "index", site, And(ex.geZero(idx), ex.lt(idx, b.Len)))
		return PtrV{K: PElem, Region: b.Region, Idx: ex.def("ix", ex.idxAdd(b.Off, idx)), Elem: b.Elem}
	case PtrV:
		// pointer to array
		if b.K != PCell {
			ex.reject("IndexAddr on unmodelled array pointer")
		}
		av, ok := ex.load(st, b, site).(ArrayV)
		if !ok {
			ex.reject("IndexAddr: cell does not hold an array")
		}
		ex.safety(st, "index", site, And(ex.geZero(idx), ex.lt(idx, ex.idxConst(av.Typ.Len()))))
		return PtrV{K: PElem, Region: av.Region, Idx: idx, Elem: av.Typ.Elem()}
	}
	ex.reject("IndexAddr on %s", valString(base))
	return nil
}

func (ex *Exec) index(st *State, fr *Frame, x *ssa.Index) Val {
	base := ex.val(fr, x.X, st)
	idx := ex.toIdx(ex.val(fr, x.Index, st).(Scalar).T, x.Index.Type())
	site := ex.siteName(fr, x, "index")
	switch b := base.(type) {
	case ArrayV:
		ex.safety(st, "index", site, And(ex.geZero(idx), ex.lt(idx, ex.idxConst(b.Typ.Len()))))
		return ex.elemVal(b.Typ.Elem(), Select(st.Mem[b.Region], idx))
	}
	ex.reject("Index on %s", valString(base))
	return nil
}

// toIdxNoWrap: like toIdx, but an index computed in a narrower unsigned type as base+const (ip+1 in uint16)
// is widened as zext(base)+const, with a side obligation that the narrow addition did not wrap. The wide
// form lets reads over stores be resolved syntactically; the obligation keeps that sound.
func (ex *Exec) toIdxNoWrap(st *State, site string, t *Term, typ types.Type) *Term {
	if ex.Mode != ModeBV {
		return t
	}
	bits, signed, _ := intInfo(typ)
	if bits == 64 || signed {
		return ex.toIdx(t, typ)
	}
	base, off := splitAdd(t, 0)
	if base == nil || off == nil || off.Sign() == 0 {
		return ex.toIdx(t, typ)
	}
	wide := BVBin("bvadd", BVZeroExt(64-bits, base), BVC(off, 64))
	ex.safety(st, "idxwrap", site, Eq(BVZeroExt(64-bits, t), wide))
	return wide
}

// splitAdd: t == base + off (mod 2^w) with off constant; looks through named definitions.
func splitAdd(t *Term, depth int) (*Term, *big.Int) {
	if depth > 40 {
		return t, big.NewInt(0)
	}
	switch t.Op {
	case "sym":
		if d, ok := CurDefs[t.Name]; ok {
			return splitAdd(d, depth+1)
		}
	case "const":
		return nil, t.Val
	case "bvadd":
		if len(t.Args) == 2 {
			b0, o0 := splitAdd(t.Args[0], depth+1)
			b1, o1 := splitAdd(t.Args[1], depth+1)
			if o0 == nil || o1 == nil {
				return t, big.NewInt(0)
			}
			sum := new(big.Int).Mod(new(big.Int).Add(o0, o1), Pow2(t.S.W))
			switch {
			case b0 == nil:
				return b1, sum
			case b1 == nil:
				return b0, sum
			}
		}
	}
	return t, big.NewInt(0)
}

// toIdx converts an integer term of Go type t to the index sort (int, 64-bit signed)
func (ex *Exec) toIdx(t *Term, typ types.Type) *Term {
	if ex.Mode != ModeBV {
		return t
	}
	bits, signed, _ := intInfo(typ)
	if bits == 64 {
		return t
	}
	if signed {
		return BVSignExt(64-bits, t)
	}
	return BVZeroExt(64-bits, t)
}

func (ex *Exec) sliceOp(st *State, fr *Frame, x *ssa.Slice) Val {
	base := ex.val(fr, x.X, st)
	site := ex.siteName(fr, x, "slice")
	var region *Region
	var off, ln, cp *Term
	var elem types.Type
	switch b := base.(type) {
	case SliceV:
		region, off, ln, cp, elem = b.Region, b.Off, b.Len, b.Cap, b.Elem
	case PtrV:
		av, ok := ex.load(st, b, site).(ArrayV)
		if !ok {
			ex.reject("Slice of pointer to non-array")
		}
		region, off, elem = av.Region, ex.idxConst(0), av.Typ.Elem()
		ln, cp = ex.idxConst(av.Typ.Len()), ex.idxConst(av.Typ.Len())
	case StringV:
		ex.reject("string slicing not supported")
	default:
		ex.reject("Slice of %s", valString(base))
	}
	lo := ex.idxConst(0)
	if x.Low != nil {
		lo = ex.toIdx(ex.val(fr, x.Low, st).(Scalar).T, x.Low.Type())
	}
	hi := ln
	if x.High != nil {
		hi = ex.toIdx(ex.val(fr, x.High, st).(Scalar).T, x.High.Type())
	}
	mx := cp
	if x.Max != nil {
		mx = ex.toIdx(ex.val(fr, x.Max, st).(Scalar).T, x.Max.Type())
		ex.safety(st, "slice", site, And(ex.le(hi, mx), ex.le(mx, cp)))
	}
	// Go: 0 <= lo <= hi <= cap (for slices), hi <= len for arrays/strings (len == cap there)
	ex.safety(st, "slice", site, And(ex.geZero(lo), ex.le(lo, hi), ex.le(hi, mx)))
	if region == nil {
		return SliceV{Elem: elem, Off: ex.idxConst(0), Len: ex.idxConst(0), Cap: ex.idxConst(0)}
	}
	return SliceV{Elem: elem, Region: region, Off: ex.def("off", ex.idxAdd(off, lo)), Len: ex.def("len", ex.idxSub(hi, lo)), Cap: ex.def("cap", ex.idxSub(mx, lo))}
}

func (ex *Exec) zeroArray(elem types.Type) *Term {
	es, _ := ex.elemSort(elem)
	var zero *Term
	switch es.K {
	case SBool:
		zero = False
	case SBV:
		zero = BVC(big.NewInt(0), es.W)
	default:
		zero = IntC(0)
	}
	rs := ex.regionSort(elem)
	return App(fmt.Sprintf("(as const %s)", rs), rs, zero)
}

func (ex *Exec) makeSlice(st *State, fr *Frame, x *ssa.MakeSlice) Val {
	elem := x.Type().Underlying().(*types.Slice).Elem()
	ln := ex.toIdx(ex.val(fr, x.Len, st).(Scalar).T, x.Len.Type())
	cp := ex.toIdx(ex.val(fr, x.Cap, st).(Scalar).T, x.Cap.Type())
	site := ex.siteName(fr, x, "make")
	ex.safety(st, "make", site, And(ex.geZero(ln), ex.le(ln, cp), ex.le(cp, ex.maxLen())))
	r := ex.newRegion("make", elem, -1)
	if cp.IsConst() && cp.Val.IsInt64() && cp.Val.Int64() <= 64 {
		r.FixedLen = cp.Val.Int64()
	}
	ex.setRegionMem(st, r, func(el types.Type, suf string) *Term { return ex.zeroArray(el) })
	return SliceV{Elem: elem, Region: r, Off: ex.idxConst(0), Len: ln, Cap: cp}
}

// ---------- loops ----------

type loopInfo struct {
	headers map[int]int // block index -> ordinal (1-based, in block order)
	fn      *ssa.Function
	body    map[int][]*ssa.BasicBlock
}

func (li *loopInfo) dominates(a, b *ssa.BasicBlock) bool { return a.Dominates(b) }

func (ex *Exec) loops(fn *ssa.Function) *loopInfo {
	if ex.loopCache == nil {
		ex.loopCache = map[*ssa.Function]*loopInfo{}
	}
	if li, ok := ex.loopCache[fn]; ok {
		return li
	}
	li := &loopInfo{headers: map[int]int{}, fn: fn, body: map[int][]*ssa.BasicBlock{}}
	var hs []int
	for _, b := range fn.Blocks {
		for _, s := range b.Succs {
			if s.Dominates(b) {
				if _, ok := li.headers[s.Index]; !ok {
					li.headers[s.Index] = 0
					hs = append(hs, s.Index)
				}
				// natural loop body: nodes that reach b without passing s
				li.body[s.Index] = append(li.body[s.Index], naturalLoop(s, b)...)
			}
		}
	}
	sort.Ints(hs)
	for i, h := range hs {
		li.headers[h] = i + 1
	}
	ex.loopCache[fn] = li
	return li
}

func naturalLoop(header, latch *ssa.BasicBlock) []*ssa.BasicBlock {
	seen := map[*ssa.BasicBlock]bool{header: true}
	var out []*ssa.BasicBlock
	out = append(out, header)
	var stack []*ssa.BasicBlock
	if !seen[latch] {
		seen[latch] = true
		stack = append(stack, latch)
		out = append(out, latch)
	}
	for len(stack) > 0 {
		n := stack[len(stack)-1]
		stack = stack[:len(stack)-1]
		for _, p := range n.Preds {
			if !seen[p] {
				seen[p] = true
				stack = append(stack, p)
				out = append(out, p)
			}
		}
	}
	return out
}

func isIntType(t types.Type) bool {
	_, _, ok := intInfo(t)
	return ok
}

func isDecimal(s string) bool {
	_, ok := new(big.Int).SetString(s, 10)
	return ok
}
