package engine

import (
	"fmt"
	"go/types"
	"math/big"

	"golang.org/x/tools/go/ssa"
)

// Maps. A Go map is a reference to a MapState: a total array of values, a presence array and a length. Keys and
// values must each reduce to one SMT term (integers, booleans, or identities of opaque values such as values of
// type-parameter type or pointers the function only stores and compares). The link between length and presence
// (cardinality) is not axiomatised; what is used is: a present key implies length >= 1, insertion of an absent key
// adds one, deletion of a present key removes one. Iteration over maps is not supported (rejected).

func (ex *Exec) mapKeySort(t types.Type) Sort {
	if s, ok := ex.elemSort(t); ok {
		return s
	}
	return IntSort
}

// termOfMapElem: the single term standing for a key or value
func (ex *Exec) termOfMapElem(v Val, what string) *Term {
	switch x := v.(type) {
	case Scalar:
		return x.T
	case OpaqueV:
		return x.Id
	case StringV:
		return x.Id
	case PtrV:
		switch x.K {
		case PNil:
			return IntC(0)
		case PBig, POpaque:
			return x.Ref
		case PCell:
			// identity of a modelled object: its cell number (distinct cells are distinct objects)
			return IntC(int64(1000000000 + x.Cell.id))
		}
	}
	ex.reject("map %s of unsupported shape %s", what, valString(v))
	return nil
}

func (ex *Exec) mapElemVal(t types.Type, term *Term) Val {
	if _, ok := ex.elemSort(t); ok {
		return Scalar{term}
	}
	if isString(t) {
		return StringV{Id: term, Len: ex.fresh("slen", ex.idxSort())}
	}
	if isBigIntPtr(t) {
		return PtrV{K: PBig, Ref: term, Elem: t.(*types.Pointer).Elem()}
	}
	if pt, isPtr := t.Underlying().(*types.Pointer); isPtr {
		return PtrV{K: POpaque, Ref: term, Elem: pt.Elem()}
	}
	return OpaqueV{Typ: t, Id: term}
}

func (ex *Exec) zeroTermOf(s Sort) *Term {
	switch s.K {
	case SBool:
		return False
	case SBV:
		return BVC(big.NewInt(0), s.W)
	}
	return IntC(0)
}

func (ex *Exec) symMap(st *State, name string, mt *types.Map) Val {
	c := ex.newCell(name)
	ks, vs := ex.mapKeySort(mt.Key()), ex.mapKeySort(mt.Elem())
	size := ex.declInput(name+"!len", ex.idxSort())
	ex.Assumes = append(ex.Assumes, ex.geZero(size))
	st.Maps[c] = &MapState{
		Vals:    ex.declInput(name+"!vals", ArraySort(ks, vs)),
		Present: ex.declInput(name+"!has", ArraySort(ks, BoolSort)),
		Size:    size,
	}
	return MapV{Typ: mt, Cell: c}
}

func (ex *Exec) mapState(st *State, v Val, site string) (*MapState, MapV, bool) {
	mv, ok := v.(MapV)
	if !ok {
		if pv, isP := v.(PtrV); isP && pv.K == PNil {
			return nil, MapV{}, false
		}
		ex.reject("map operation on %s", valString(v))
	}
	if mv.Cell == nil {
		return nil, mv, false
	}
	ms, ok := st.Maps[mv.Cell]
	if !ok {
		ex.reject("unknown map %s", mv.Cell.Name)
	}
	return ms, mv, true
}

// mapStep executes MakeMap / MapUpdate / Lookup.
func (ex *Exec) mapStep(st *State, fr *Frame, ins ssa.Instruction) bool {
	switch x := ins.(type) {
	case *ssa.MakeMap:
		mt := x.Type().Underlying().(*types.Map)
		c := ex.newCell("makemap")
		ks, vs := ex.mapKeySort(mt.Key()), ex.mapKeySort(mt.Elem())
		as, ps := ArraySort(ks, vs), ArraySort(ks, BoolSort)
		st.Maps[c] = &MapState{
			Vals:    App(fmt.Sprintf("(as const %s)", as), as, ex.zeroTermOf(vs)),
			Present: App(fmt.Sprintf("(as const %s)", ps), ps, False),
			Size:    ex.idxConst(0),
		}
		fr.Vals[x] = MapV{Typ: mt, Cell: c}
	case *ssa.MapUpdate:
		ms, mv, ok := ex.mapState(st, ex.val(fr, x.Map, st), "update")
		if !ok {
			// assignment to an entry of a nil map panics
			ex.safety(st, "nil-map", ex.siteName(fr, ins, "nil"), False)
			return true
		}
		k := ex.termOfMapElem(ex.val(fr, x.Key, st), "key")
		v := ex.termOfMapElem(ex.val(fr, x.Value, st), "value")
		had := Select(ms.Present, k)
		st.Maps[mv.Cell] = &MapState{
			Vals:    ex.def("mvals", Store(ms.Vals, k, v)),
			Present: ex.def("mhas", Store(ms.Present, k, True)),
			Size:    ex.def("mlen", Ite(had, ms.Size, ex.idxAdd(ms.Size, ex.idxConst(1)))),
		}
	case *ssa.Lookup:
		if _, isMap := x.X.Type().Underlying().(*types.Map); !isMap {
			ex.reject("string indexing not supported")
		}
		mt := x.X.Type().Underlying().(*types.Map)
		ms, _, ok := ex.mapState(st, ex.val(fr, x.X, st), "lookup")
		var val Val
		var okT *Term
		if !ok {
			// lookup in a nil map: zero value, not present
			val, okT = ex.zeroVal(st, mt.Elem()), False
		} else {
			k := ex.termOfMapElem(ex.val(fr, x.Index, st), "key")
			okT = ex.def("mok", Select(ms.Present, k))
			st.assume(Implies(okT, ex.le(ex.idxConst(1), ms.Size)))
			vs := ex.mapKeySort(mt.Elem())
			val = ex.mapElemVal(mt.Elem(), ex.def("mval", Ite(okT, Select(ms.Vals, k), ex.zeroTermOf(vs))))
		}
		if x.CommaOk {
			fr.Vals[x] = TupleV{E: []Val{val, Scalar{okT}}}
		} else {
			fr.Vals[x] = val
		}
	default:
		ex.reject("map instruction %s not supported", ins)
	}
	return false
}

// mapDelete: the delete builtin
func (ex *Exec) mapDelete(st *State, m Val, key Val) {
	ms, mv, ok := ex.mapState(st, m, "delete")
	if !ok {
		return // delete on a nil map is a no-op
	}
	k := ex.termOfMapElem(key, "key")
	had := Select(ms.Present, k)
	st.assume(Implies(had, ex.le(ex.idxConst(1), ms.Size)))
	st.Maps[mv.Cell] = &MapState{
		Vals:    ms.Vals,
		Present: ex.def("mhas", Store(ms.Present, k, False)),
		Size:    ex.def("mlen", Ite(had, ex.idxSub(ms.Size, ex.idxConst(1)), ms.Size)),
	}
}

// specMap: the state of the map a spec expression denotes (nil map: nothing present)
func (ev *SpecEnv) specMap(v Val) (*MapState, *types.Map) {
	mv, ok := v.(MapV)
	if !ok {
		ev.fail("not a map: %s", valString(v))
	}
	if mv.Cell == nil {
		return nil, mv.Typ
	}
	ms, ok := ev.st.Maps[mv.Cell]
	if !ok {
		ev.fail("unknown map %s", mv.Cell.Name)
	}
	return ms, mv.Typ
}
