package engine

import (
	"fmt"
	"go/types"
	"strings"

	"golang.org/x/tools/go/ssa"
)

// Val is a symbolic Go value.
type Val interface{ isVal() }

type Scalar struct {
	T *Term
}

type StructV struct {
	Typ types.Type
	F   []Val
}

// SliceV: Region==nil means the nil slice.
type SliceV struct {
	Elem          types.Type
	Region        *Region
	Off, Len, Cap *Term
	// IsNil: for a slice returned by a function used through its contract, whether it is the nil slice (unknown; a nil
	// slice has length 0). Nil for every other slice value (whose nil-ness is structural: Region == nil).
	IsNil *Term
}

// ArrayV: a fixed-size array value living in a region (the region is the array's storage).
type ArrayV struct {
	Typ    *types.Array
	Region *Region
}

type PtrKind int

const (
	PNil PtrKind = iota
	PCell
	PElem
	PBig    // *big.Int reference: Ref is an Int term (0 = nil)
	POpaque // pointer we do not model; Ref identifies it
)

type PtrV struct {
	K      PtrKind
	Cell   *Cell
	Path   []int
	Region *Region
	Idx    *Term
	Ref    *Term
	Elem   types.Type
}

type IfaceSym struct {
	Name     string
	Payloads map[string]Val
	Ghosts   map[string]*Term
	// PanicKind: the failure kind a panic with this value counts as (set from the producing contract's
	// `option errorkind=K`)
	PanicKind string
}

type IfaceV struct {
	Kind    *Term      // Int tag of the dynamic type; 0 = nil interface
	Conc    types.Type // known dynamic type (nil if symbolic)
	Payload Val        // when Conc != nil
	Sym     *IfaceSym  // when symbolic
}

type ClosureV struct {
	Fn   *ssa.Function
	Bind []Val
}

type TupleV struct{ E []Val }

type OpaqueV struct {
	Typ types.Type
	Id  *Term
}

type StringV struct {
	Id  *Term // Int identity (content abstracted)
	Len *Term
	Lit *string
}

// MapV: map modelled as total array + presence array (only for comparable scalar keys).
type MapV struct {
	Typ  *types.Map
	Cell *Cell // holds MapState
}

func (Scalar) isVal()   {}
func (StructV) isVal()  {}
func (SliceV) isVal()   {}
func (ArrayV) isVal()   {}
func (PtrV) isVal()     {}
func (IfaceV) isVal()   {}
func (ClosureV) isVal() {}
func (TupleV) isVal()   {}
func (OpaqueV) isVal()  {}
func (StringV) isVal()  {}
func (MapV) isVal()     {}

type Cell struct {
	Name string
	id   int
}

type Region struct {
	Name string
	id   int
	Elem types.Type
	// FixedLen >= 0 for fixed arrays
	FixedLen int64
	// Param: region backing a parameter slice (caller visible)
	Param bool
	// Sub: for elements that are structs of scalars, one sub-region per field (the region itself has no array)
	Sub []*Region
}

func valString(v Val) string {
	switch x := v.(type) {
	case Scalar:
		return x.T.String()
	case StructV:
		var parts []string
		for _, f := range x.F {
			parts = append(parts, valString(f))
		}
		return "{" + strings.Join(parts, ", ") + "}"
	case SliceV:
		if x.Region == nil {
			return "nilslice"
		}
		return fmt.Sprintf("slice(%s,off=%s,len=%s,cap=%s)", x.Region.Name, x.Off, x.Len, x.Cap)
	case PtrV:
		switch x.K {
		case PNil:
			return "nil"
		case PCell:
			return fmt.Sprintf("&%s%v", x.Cell.Name, x.Path)
		case PElem:
			return fmt.Sprintf("&%s[%s]", x.Region.Name, x.Idx)
		case PBig:
			return "big#" + x.Ref.String()
		default:
			return "ptr#" + x.Ref.String()
		}
	case IfaceV:
		if x.Conc != nil {
			return fmt.Sprintf("iface(%s: %s)", x.Conc, valString(x.Payload))
		}
		return "iface(" + x.Sym.Name + ")"
	case ClosureV:
		return "closure " + x.Fn.String()
	case TupleV:
		var parts []string
		for _, f := range x.E {
			parts = append(parts, valString(f))
		}
		return "(" + strings.Join(parts, ", ") + ")"
	case OpaqueV:
		return "opaque#" + x.Id.String()
	case StringV:
		if x.Lit != nil {
			return fmt.Sprintf("%q", *x.Lit)
		}
		return "string#" + x.Id.String()
	case nil:
		return "<nil-val>"
	}
	return fmt.Sprintf("%T", v)
}

// intInfo reports width/signedness of a Go integer type (after Underlying).
func intInfo(t types.Type) (bits int, signed bool, ok bool) {
	b, isB := t.Underlying().(*types.Basic)
	if !isB {
		return 0, false, false
	}
	switch b.Kind() {
	case types.Int8:
		return 8, true, true
	case types.Int16:
		return 16, true, true
	case types.Int32:
		return 32, true, true
	case types.Int64, types.Int:
		return 64, true, true
	case types.Uint8:
		return 8, false, true
	case types.Uint16:
		return 16, false, true
	case types.Uint32:
		return 32, false, true
	case types.Uint64, types.Uint, types.Uintptr:
		return 64, false, true
	case types.UntypedInt, types.UntypedRune:
		return 64, true, true
	}
	return 0, false, false
}

func isBool(t types.Type) bool {
	b, ok := t.Underlying().(*types.Basic)
	return ok && (b.Kind() == types.Bool || b.Kind() == types.UntypedBool)
}

func isString(t types.Type) bool {
	b, ok := t.Underlying().(*types.Basic)
	return ok && (b.Kind() == types.String || b.Kind() == types.UntypedString)
}

func isBigIntPtr(t types.Type) bool {
	p, ok := t.(*types.Pointer)
	if !ok {
		return false
	}
	n, ok := p.Elem().(*types.Named)
	if !ok {
		return false
	}
	return n.Obj().Pkg() != nil && n.Obj().Pkg().Path() == "math/big" && n.Obj().Name() == "Int"
}

func typeKey(t types.Type) string {
	return types.TypeString(t, nil)
}
