package engine

import (
	"bytes"
	"encoding/json"
	"fmt"
	"go/types"
	"math/big"
	"os"
	"os/exec"
	"path/filepath"
	"sort"
	"strings"
	"time"

	"golang.org/x/tools/go/ssa"
)

type ReplayResult struct {
	Input     string         `json:"input"`
	GoCall    string         `json:"go_call"`
	Outcome   map[string]any `json:"outcome,omitempty"`
	Confirmed bool           `json:"confirmed"`
	Verdict   string         `json:"verdict"`
	Cmd       string         `json:"cmd,omitempty"`
	Error     string         `json:"error,omitempty"`
	Decls     []string       `json:"harness_decls,omitempty"`
	Imports   map[string]string `json:"harness_imports,omitempty"`
	Model     map[string]string `json:"model,omitempty"`
	Search    string            `json:"search,omitempty"`
}

// Observed value description produced by the harness.
type obsVal struct {
	Type  string   `json:"type"`  // Go type (%T)
	Nil   bool     `json:"nil"`
	Int   string   `json:"int"`   // decimal, for integers and numeric Values (raw scaled integer for fixed point)
	Bool  *bool    `json:"bool"`
	Bytes *string  `json:"bytes"` // hex
	Err   string   `json:"err"`
	Elems []obsVal `json:"elems"`
	Len   int      `json:"len"`
	Fields map[string]obsVal `json:"fields"`
}

type outcome struct {
	Panicked  bool     `json:"panicked"`
	PanicType string   `json:"panic_type"`
	PanicMsg  string   `json:"panic_msg"`
	Runtime   bool     `json:"runtime_error"`
	Results   []obsVal `json:"results"`
	Metered   string   `json:"metered"`
	RandDraws int      `json:"rand_draws"`
	RandLast  string   `json:"rand_last"`
}

const replayHelpers = `
func verifBig(s string) *verifbig.Int { n, _ := new(verifbig.Int).SetString(s, 10); return n }
func verifHex(s string) []byte { b, _ := verifhex.DecodeString(s); return b }
func verifAddr[T any](v T) *T { return &v }

type verifObs struct {
	Type  string     ` + "`json:\"type\"`" + `
	Nil   bool       ` + "`json:\"nil\"`" + `
	Int   string     ` + "`json:\"int\"`" + `
	Bool  *bool      ` + "`json:\"bool\"`" + `
	Bytes *string    ` + "`json:\"bytes\"`" + `
	Err   string     ` + "`json:\"err\"`" + `
	Elems []verifObs ` + "`json:\"elems\"`" + `
	Len   int        ` + "`json:\"len\"`" + `
	Fields map[string]verifObs ` + "`json:\"fields\"`" + `
}

func verifDescribe(x any) verifObs {
	o := verifObs{Type: verifFmt.Sprintf("%T", x)}
	if x == nil {
		o.Nil = true
		return o
	}
	if d, ok := verifDescribePkg(x); ok {
		d.Type = o.Type
		return d
	}
	rv := verifreflect.ValueOf(x)
	switch rv.Kind() {
	case verifreflect.Int, verifreflect.Int8, verifreflect.Int16, verifreflect.Int32, verifreflect.Int64:
		o.Int = verifFmt.Sprint(rv.Int())
	case verifreflect.Uint, verifreflect.Uint8, verifreflect.Uint16, verifreflect.Uint32, verifreflect.Uint64:
		o.Int = verifFmt.Sprint(rv.Uint())
	case verifreflect.Bool:
		b := rv.Bool()
		o.Bool = &b
	case verifreflect.Slice:
		if rv.IsNil() {
			o.Nil = true
		}
		o.Len = rv.Len()
		if rv.Type().Elem().Kind() == verifreflect.Uint8 {
			h := verifhex.EncodeToString(rv.Bytes())
			o.Bytes = &h
		} else {
			for i := 0; i < rv.Len() && i < 64; i++ {
				o.Elems = append(o.Elems, verifDescribe(rv.Index(i).Interface()))
			}
		}
	case verifreflect.Ptr:
		if rv.IsNil() {
			o.Nil = true
		} else if bi, ok := x.(*verifbig.Int); ok {
			o.Int = bi.String()
		}
	case verifreflect.Struct:
		if f := rv.FieldByName("BigInt"); f.IsValid() && f.CanInterface() {
			if bi, ok := f.Interface().(*verifbig.Int); ok && bi != nil {
				o.Int = bi.String()
			}
		}
		o.Fields = map[string]verifObs{}
		for i := 0; i < rv.NumField(); i++ {
			f := rv.Field(i)
			fo := verifObs{Type: f.Type().String()}
			switch f.Kind() {
			case verifreflect.Int, verifreflect.Int8, verifreflect.Int16, verifreflect.Int32, verifreflect.Int64:
				fo.Int = verifFmt.Sprint(f.Int())
			case verifreflect.Uint, verifreflect.Uint8, verifreflect.Uint16, verifreflect.Uint32, verifreflect.Uint64:
				fo.Int = verifFmt.Sprint(f.Uint())
			case verifreflect.Bool:
				b := f.Bool()
				fo.Bool = &b
			default:
				if f.CanInterface() {
					fo = verifDescribe(f.Interface())
				} else {
					continue
				}
			}
			o.Fields[rv.Type().Field(i).Name] = fo
		}
	}
	if e, ok := x.(error); ok {
		o.Err = e.Error()
	}
	return o
}

var verifMeteredTotal uint64

// a random source that replays a fixed byte stream (then zeros) and records what it handed out (C47 replays)
var verifRandStream []byte
var verifRandPos, verifRandDraws int
var verifRandLast []byte

type verifRandomGen struct{}
type verifTooManyDraws struct{}

func (verifRandomGen) ReadRandom(b []byte) error {
	verifRandDraws++
	if verifRandDraws > 100000 {
		panic(verifTooManyDraws{})
	}
	for i := range b {
		if verifRandPos < len(verifRandStream) {
			b[i] = verifRandStream[verifRandPos]
			verifRandPos++
		} else {
			b[i] = 0
		}
	}
	verifRandLast = append([]byte{}, b...)
	return nil
}

func VerifReplayRun(f func() []any) string {
	verifMeteredTotal = 0
	verifRandPos, verifRandDraws, verifRandLast = 0, 0, nil
	type outc struct {
		RandDraws int        ` + "`json:\"rand_draws\"`" + `
		RandLast  string     ` + "`json:\"rand_last\"`" + `
		Metered   string     ` + "`json:\"metered\"`" + `
		Panicked  bool       ` + "`json:\"panicked\"`" + `
		PanicType string     ` + "`json:\"panic_type\"`" + `
		PanicMsg  string     ` + "`json:\"panic_msg\"`" + `
		Runtime   bool       ` + "`json:\"runtime_error\"`" + `
		Results   []verifObs ` + "`json:\"results\"`" + `
	}
	var o outc
	func() {
		defer func() {
			if r := recover(); r != nil {
				o.Panicked = true
				o.PanicType = verifFmt.Sprintf("%T", r)
				o.PanicMsg = verifFmt.Sprint(r)
				if len(o.PanicMsg) > 300 {
					o.PanicMsg = o.PanicMsg[:300]
				}
				_, o.Runtime = r.(verifruntime.Error)
			}
		}()
		for _, r := range f() {
			o.Results = append(o.Results, verifDescribe(r))
		}
	}()
	o.Metered = verifFmt.Sprint(verifMeteredTotal)
	o.RandDraws = verifRandDraws
	o.RandLast = verifhex.EncodeToString(verifRandLast)
	b, _ := verifjson.Marshal(o)
	return string(b)
}
`

// per-package description hooks (numeric values of the interpreter package need ToBigInt / raw access)
var describePkg = map[string]string{
	cadenceMod + "/interpreter": `
func verifDescribePkg(x any) (verifObs, bool) {
	switch v := x.(type) {
	case BoolValue:
		b := bool(v)
		return verifObs{Bool: &b}, true
	case BigNumberValue:
		return verifObs{Int: v.ToBigInt(nil).String()}, true
	}
	return verifObs{}, false
}
`,
}

const describeDefault = `
func verifDescribePkg(x any) (verifObs, bool) { return verifObs{}, false }
`

// goExpr renders a concrete Go expression for symbolic value v under the model.
type modelEnv struct {
	m         map[string]string
	pkg       *types.Package
	prog      *Program
	desc      []string
	imports   map[string]string // package path -> name, for foreign types used in the harness
	wantGauge bool              // pass a recording gauge for gauge/context parameters (C32 replays)
	decls     []string          // extra top-level declarations (gauge wrappers)
	pre       []string          // statements before the call
	declBase  int
	cells     map[*Cell]Val // entry contents of modelled objects (pointer parameters)
	nilSubst []string // objects passed as nil because they cannot be built
	randomUsed bool   // a replaying random source was passed (its stream is the candidate's "__stream")
}

func (me *modelEnv) intOf(t *Term) (*big.Int, bool) {
	if t.IsConst() {
		return t.Val, true
	}
	if t.Op == "sym" {
		if v, ok := me.m[t.Name]; ok {
			return ModelInt(v)
		}
		// unconstrained symbol: any value works
		return big.NewInt(0), true
	}
	return nil, false
}

func (me *modelEnv) qual(t types.Type) string {
	return types.TypeString(t, func(p *types.Package) string {
		if p == me.pkg {
			return ""
		}
		if me.imports == nil {
			me.imports = map[string]string{}
		}
		me.imports[p.Path()] = p.Name()
		return p.Name()
	})
}

func hasMethod(t types.Type, name string) bool {
	it, ok := t.Underlying().(*types.Interface)
	if !ok {
		return false
	}
	for i := 0; i < it.NumMethods(); i++ {
		if it.Method(i).Name() == name {
			return true
		}
	}
	return false
}

func (me *modelEnv) goExpr(name string, v Val, t types.Type) (string, bool) {
	switch x := v.(type) {
	case Scalar:
		if x.T.S.K == SBool {
			if x.T.IsTrue() {
				return "true", true
			}
			if x.T.IsFalse() {
				return "false", true
			}
			if mv, ok := me.m[x.T.Name]; ok {
				return strings.TrimSpace(mv), true
			}
			return "false", true
		}
		n, ok := me.intOf(x.T)
		if !ok {
			return "", false
		}
		if bits, signed, isInt := intInfo(t); isInt {
			if x.T.S.K == SBV && signed && n.Cmp(Pow2(bits-1)) >= 0 {
				n = new(big.Int).Sub(n, Pow2(bits))
			}
		}
		me.desc = append(me.desc, fmt.Sprintf("%s=%s", name, n))
		if nt, ok := t.(*types.Named); ok && nt.Obj().Pkg() != nil && nt.Obj().Pkg() != me.pkg && !nt.Obj().Exported() {
			// unexported integer type of another package: an untyped constant is assignable to it
			return n.String(), true
		}
		return fmt.Sprintf("%s(%s)", me.qual(t), n), true
	case StructV:
		st := x.Typ.Underlying().(*types.Struct)
		var parts []string
		for i, f := range x.F {
			e, ok := me.goExpr(name+"."+st.Field(i).Name(), f, st.Field(i).Type())
			if !ok {
				switch st.Field(i).Type().Underlying().(type) {
				case *types.Pointer, *types.Interface, *types.Slice, *types.Map, *types.Signature:
					// a part of the object the harness cannot build: left at its zero value (nil). A nil dereference
					// of the real code on such an input is the harness's doing, not a finding.
					me.nilSubst = append(me.nilSubst, name+"."+st.Field(i).Name())
					continue
				}
				return "", false
			}
			parts = append(parts, st.Field(i).Name()+": "+e)
		}
		return me.qual(x.Typ) + "{" + strings.Join(parts, ", ") + "}", true
	case PtrV:
		switch x.K {
		case PNil:
			return "nil", true
		case PCell:
			// pointer to a modelled object: &T{...} from its entry contents
			if me.cells != nil {
				if cv, ok := me.cells[x.Cell]; ok && len(x.Path) == 0 {
					if _, isScalar := cv.(Scalar); isScalar {
						// pointer to an integer or boolean variable (ip *uint16): a fresh variable holding the entry value
						if _, isBasic := x.Elem.Underlying().(*types.Basic); isBasic {
							if e, ok := me.goExpr(name, cv, x.Elem); ok {
								return "verifAddr(" + e + ")", true
							}
						}
					}
					if e, ok := me.goExpr(name, cv, x.Elem); ok && strings.Contains(e, "{") {
						return "&" + e, true
					}
				}
			}
			me.nilSubst = append(me.nilSubst, name)
			return "nil", true
		case PBig:
			ref, ok := me.intOf(x.Ref)
			if !ok {
				return "", false
			}
			if ref.Sign() == 0 {
				me.desc = append(me.desc, name+"=nil")
				return "nil", true
			}
			// value of the referenced big.Int in the entry heap
			key := x.Ref.String() + "!val"
			if x.Ref.Op == "sym" {
				key = x.Ref.Name + "!val"
			}
			val := "0"
			if mv, ok := me.m[key]; ok {
				if n, ok := ModelInt(mv); ok {
					val = n.String()
				}
			} else if x.Ref.IsConst() {
				// global constant
				for gn, id := range me.prog.BigGlobals {
					if int64(id) == x.Ref.Val.Int64() {
						val = me.prog.Consts[gn]
					}
				}
			}
			me.desc = append(me.desc, fmt.Sprintf("%s=%s", name, val))
			return fmt.Sprintf("verifBig(%q)", val), true
		}
	case IfaceV:
		if x.Conc != nil {
			return me.goExpr(name, x.Payload, x.Conc)
		}
		if x.Sym == nil {
			return "nil", true
		}
		k, ok := me.intOf(x.Kind)
		if t != nil && hasMethod(t, "ReadRandom") && (!ok || k.Sign() != 0) {
			// the host's random source: a generator that replays the candidate's byte stream and records its draws
			me.randomUsed = true
			me.desc = append(me.desc, name+"=<random source replaying 0x"+me.m["__stream"]+", then zeros>")
			return "verifRandomGen{}", true
		}
		if me.wantGauge && t != nil && hasMethod(t, "MeterMemory") && (!ok || k.Sign() != 0) {
			// a recording gauge: an embedded nil interface of the static type with the metering methods overridden
			n := me.declBase + len(me.decls) + 1
			commonPkg := "common."
			if me.pkg.Path() == cadenceMod+"/common" {
				commonPkg = ""
			} else {
				if me.imports == nil {
					me.imports = map[string]string{}
				}
				me.imports[cadenceMod+"/common"] = "common"
			}
			me.decls = append(me.decls, fmt.Sprintf("type verifGauge%d struct{ %s }\nfunc (g *verifGauge%d) MeterMemory(u %sMemoryUsage) error { verifMeteredTotal += u.Amount; return nil }\nfunc (g *verifGauge%d) MeterComputation(u %sComputationUsage) error { return nil }\n", n, me.qual(t), n, commonPkg, n, commonPkg))
			me.desc = append(me.desc, name+"=<recording gauge>")
			return fmt.Sprintf("&verifGauge%d{}", n), true
		}
		if !ok || k.Sign() == 0 {
			// nil interface (or unconstrained): contexts and gauges are passed as nil
			if !ok && !(t != nil && hasMethod(t, "MeterMemory")) {
				// not nil in the model, merely not constructible: a nil dereference is then the harness's doing
				me.nilSubst = append(me.nilSubst, name)
			}
			return "nil", true
		}
		if t != nil && hasMethod(t, "MeterMemory") {
			// contexts and gauges cannot be constructed; nil disables metering only
			return "nil", true
		}
		ct, ok := me.prog.tagTypes[int(k.Int64())]
		if !ok {
			me.desc = append(me.desc, fmt.Sprintf("%s=<dynamic type #%s not constructible>", name, k))
			return "", false
		}
		p, ok := x.Sym.Payloads[typeKey(ct)]
		if !ok {
			// a type the function never looked into: build a value of that type from the ghost integer part
			if g, have := x.Sym.Ghosts["mval"]; have {
				if mv, ok2 := me.intOf(g); ok2 {
					if e, ok3 := me.fromInt(ct, mv); ok3 {
						me.desc = append(me.desc, fmt.Sprintf("%s=%s(%s)", name, me.qual(ct), mv))
						return e, true
					}
				}
			}
			me.desc = append(me.desc, fmt.Sprintf("%s=<%s: no value of this type can be built from the model>", name, me.qual(ct)))
			return "", false
		}
		return me.goExpr(name, p, ct)
	case SliceV:
		if x.Region == nil {
			return "nil", true
		}
		ln, ok := me.intOf(x.Len)
		if !ok {
			return "", false
		}
		if ln.Cmp(big.NewInt(1<<16)) > 0 {
			me.desc = append(me.desc, fmt.Sprintf("len(%s)=%s (too long to replay)", name, ln))
			return "", false
		}
		if b, isB := x.Elem.Underlying().(*types.Basic); !isB || b.Kind() != types.Uint8 {
			return "", false
		}
		n := int(ln.Int64())
		buf := make([]byte, n)
		for i := 0; i < n; i++ {
			key := fmt.Sprintf("%s!e%d", x.Region.Name, i)
			_ = key
			if mv, ok := me.m[me.elemKey(x, i)]; ok {
				if bv, ok := ModelInt(mv); ok {
					buf[i] = byte(bv.Int64())
				}
			}
		}
		me.desc = append(me.desc, fmt.Sprintf("%s=0x%x", name, buf))
		return fmt.Sprintf("verifHex(\"%x\")", buf), true
	case StringV:
		if x.Lit != nil {
			return fmt.Sprintf("%q", *x.Lit), true
		}
		return `""`, true
	case OpaqueV:
		me.nilSubst = append(me.nilSubst, name)
		return "nil", true
	}
	return "", false
}

func (me *modelEnv) elemKey(s SliceV, i int) string {
	return sanitizeSym(fmt.Sprintf("%s!e%d", strings.SplitN(s.Region.Name, "#", 2)[0], i))
}

// Replay runs the real function on the counterexample of a failed obligation and decides whether the
// observed behaviour contradicts the function's contract.
func (p *Program) Replay(opts CheckOpts, name string, res *OblResult, frs []*FuncResult, work string) *ReplayResult {
	if res == nil {
		return nil
	}
	var fr *FuncResult
	for _, f := range frs {
		if f.Key == res.O.Func {
			fr = f
		}
	}
	if fr == nil || fr.Exec == nil {
		return nil
	}
	if fr.Exec == nil || fr.Exec.Fn == nil {
		// a theorem (no function to run): the violation is reported with the solver's output only
		return nil
	}
	wantGauge := fr.Contract.Replay == "metering"
	for _, t := range res.O.Tags {
		if t == "C32" {
			wantGauge = true
		}
	}
	if res.Ans.Model == nil {
		if res.O.Expect != "unsat" || res.O.Probe || strings.HasPrefix(res.O.Short, "lemma.") {
			return nil
		}
		return p.boundarySearch(opts, res, fr, work, wantGauge)
	}
	return p.replayCandidates(fr, res.Ans.Model, work, opts.Overlay, wantGauge)
}

func (p *Program) replayModel(fr *FuncResult, model map[string]string, work string, overlaySrc map[string][]byte) *ReplayResult {
	rr := &ReplayResult{}
	ex := fr.Exec
	fn := ex.Fn
	me := &modelEnv{m: model, pkg: fn.Pkg.Pkg, prog: p}
	var argExprs []string
	for i, prm := range fn.Params {
		nm := fr.ParamNames[i]
		if be := boundArgExpr(fr.Contract, nm, fn.Pkg.Pkg.Name()); be != "" {
			// instance contract: the parameter is the value of the bind expression itself
			me.desc = append(me.desc, nm+"="+be)
			argExprs = append(argExprs, be)
			continue
		}
		e, ok := me.goExpr(nm, ex.ParamVals[nm], prm.Type())
		if !ok {
			rr.Error = "cannot construct argument " + nm + " from the model"
			rr.Input = strings.Join(me.desc, " ")
			rr.Verdict = "not replayable"
			return rr
		}
		argExprs = append(argExprs, e)
	}
	rr.Input = strings.Join(me.desc, " ")
	var call string
	if fn.Signature.Recv() != nil {
		call = fmt.Sprintf("(%s).%s(%s)", argExprs[0], fn.Name(), strings.Join(argExprs[1:], ", "))
	} else {
		call = fmt.Sprintf("%s(%s)", fn.Name(), strings.Join(argExprs, ", "))
	}
	rr.GoCall = call
	out, cmdline, err := p.runHarness(fn, call, work, overlaySrc)
	rr.Cmd = cmdline
	if err != nil {
		rr.Error = err.Error()
		rr.Verdict = "harness failed"
		return rr
	}
	var oc outcome
	if err := json.Unmarshal([]byte(out), &oc); err != nil {
		rr.Error = "bad harness output: " + out
		return rr
	}
	raw, _ := json.Marshal(oc)
	json.Unmarshal(raw, &rr.Outcome)
	verdict, violated := p.judge(fr, model, &oc, work)
	rr.Verdict = verdict
	rr.Confirmed = violated
	return rr
}

var harnessSeq int

// runHarness builds (through an overlay, nothing is written to /repo) and runs a program that calls the
// real function.
func (p *Program) runHarness(fn *ssa.Function, call string, work string, overlaySrc map[string][]byte) (string, string, error) {
	harnessSeq++
	dir := filepath.Join(work, fmt.Sprintf("harness%d", harnessSeq))
	os.MkdirAll(dir, 0o755)
	pkgPath := fn.Pkg.Pkg.Path()
	rel := strings.TrimPrefix(strings.TrimPrefix(pkgPath, cadenceMod), "/")
	nres := fn.Signature.Results().Len()
	var body string
	switch nres {
	case 0:
		body = call + "\n\t\treturn nil"
	case 1:
		body = "r0 := " + call + "\n\t\treturn []any{r0}"
	default:
		var rs, as []string
		for i := 0; i < nres; i++ {
			rs = append(rs, fmt.Sprintf("r%d", i))
			as = append(as, fmt.Sprintf("r%d", i))
		}
		body = strings.Join(rs, ", ") + " := " + call + "\n\t\treturn []any{" + strings.Join(as, ", ") + "}"
	}
	desc := describeDefault
	if d, ok := describePkg[pkgPath]; ok {
		desc = d
	}
	var src bytes.Buffer
	fmt.Fprintf(&src, "package %s\n\nimport (\n\tverifFmt \"fmt\"\n\tverifbig \"math/big\"\n\tverifhex \"encoding/hex\"\n\tverifjson \"encoding/json\"\n\tverifreflect \"reflect\"\n\tverifruntime \"runtime\"\n)\n", fn.Pkg.Pkg.Name())
	src.WriteString(replayHelpers)
	src.WriteString(desc)
	fmt.Fprintf(&src, "\nfunc VerifReplay() string {\n\treturn VerifReplayRun(func() []any {\n\t\t%s\n\t})\n}\n", body)
	gen := filepath.Join(dir, "replay_gen.go")
	os.WriteFile(gen, src.Bytes(), 0o644)
	mainSrc := fmt.Sprintf("package main\n\nimport (\n\t\"fmt\"\n\tp %q\n)\n\nfunc main() { fmt.Println(p.VerifReplay()) }\n", pkgPath)
	mainFile := filepath.Join(dir, "main.go")
	os.WriteFile(mainFile, []byte(mainSrc), 0o644)
	ov := map[string]string{
		filepath.Join(p.Repo, rel, "zz_verif_replay.go"):             gen,
		filepath.Join(p.Repo, "cmd", "zz_verif_replay", "main.go"): mainFile,
	}
	// source overlays (mutants in selftest) must be visible to the build too
	i := 0
	for path, data := range overlaySrc {
		i++
		f := filepath.Join(dir, fmt.Sprintf("ov%d.go", i))
		os.WriteFile(f, data, 0o644)
		ov[path] = f
	}
	ovJSON, _ := json.Marshal(map[string]any{"Replace": ov})
	ovFile := filepath.Join(dir, "overlay.json")
	os.WriteFile(ovFile, ovJSON, 0o644)
	bin := filepath.Join(dir, "replay.bin")
	cmdline := fmt.Sprintf("cd %s && GOFLAGS=-mod=mod GOPROXY=off go build -overlay %s -o %s ./cmd/zz_verif_replay && %s", p.Repo, ovFile, bin, bin)
	cmd := exec.Command("go", "build", "-tags", "verif", "-overlay", ovFile, "-o", bin, "./cmd/zz_verif_replay")
	cmd.Dir = p.Repo
	cmd.Env = append(os.Environ(), "GOFLAGS=-mod=mod", "GOPROXY=off")
	if out, err := cmd.CombinedOutput(); err != nil {
		return "", cmdline, fmt.Errorf("harness build failed: %v\n%s\n--- source ---\n%s", err, truncate(string(out), 2000), body)
	}
	run := exec.Command(bin)
	var stdout bytes.Buffer
	run.Stdout = &stdout
	done := make(chan error, 1)
	if err := run.Start(); err != nil {
		return "", cmdline, err
	}
	go func() { done <- run.Wait() }()
	select {
	case err := <-done:
		if err != nil {
			return "", cmdline, fmt.Errorf("harness run: %v", err)
		}
	case <-time.After(60 * time.Second):
		run.Process.Kill()
		return "", cmdline, fmt.Errorf("harness timed out")
	}
	return strings.TrimSpace(stdout.String()), cmdline, nil
}

// judge decides whether the observed outcome contradicts the contract, by asking the solver about each
// clause with the inputs pinned to the model and the result pinned to the observation.
func (p *Program) judge(fr *FuncResult, model map[string]string, oc *outcome, work string) (string, bool) {
	ex := fr.Exec
	c := fr.Contract
	fn := ex.Fn
	// term construction below must see this function's definitions (not those of the function verified last)
	CurDefs = map[string]*Term{}
	SymRanges = ex.SymRangesMap
	if SymRanges == nil {
		SymRanges = map[string][2]*big.Int{}
	}
	ArrayPrefix = ex.ArrayPrefixMap
	if ArrayPrefix == nil {
		ArrayPrefix = map[string]arrayPrefix{}
	}
	BaseLowerBound = ex.BaseLowerBoundMap
	if BaseLowerBound == nil {
		BaseLowerBound = map[string]*Term{}
	}
	for _, d := range ex.Defs {
		CurDefs[d.Name] = d.T
	}
	NLMulUF = c.Options["nlmul"] == "uf"
	defer func() { NLMulUF = false }()
	var pins []*Term
	var names []string
	for n := range model {
		names = append(names, n)
	}
	sort.Strings(names)
	// pin every declared input to its model value
	declared := map[string]Sort{}
	for _, a := range ex.Assumes {
		CollectSyms(a, declared)
	}
	for _, d := range ex.Defs {
		CollectSyms(d.T, declared)
	}
	for _, pv := range ex.ParamVals {
		collectValSyms(pv, declared)
	}
	for _, cv := range ex.Entry.Cells {
		collectValSyms(cv, declared)
	}
	for _, n := range names {
		s, ok := declared[n]
		if !ok {
			continue
		}
		switch s.K {
		case SInt:
			if v, ok := ModelInt(model[n]); ok {
				pins = append(pins, Eq(Sym(n, s), IntBig(v)))
			}
		case SBV:
			if v, ok := ModelInt(model[n]); ok {
				pins = append(pins, Eq(Sym(n, s), BVC(v, s.W)))
			}
		case SBool:
			pins = append(pins, Eq(Sym(n, s), BoolC(strings.TrimSpace(model[n]) == "true")))
		}
	}
	// big values of inputs: pinned through the !val aliases
	for _, n := range names {
		if strings.HasSuffix(n, "!val") {
			ref := strings.TrimSuffix(n, "!val")
			if v, ok := ModelInt(model[n]); ok {
				if _, isRef := declared[ref]; isRef {
					pins = append(pins, Eq(Select(Sym("heap0", ArraySort(IntSort, IntSort)), Sym(ref, IntSort)), IntBig(v)))
				}
			}
		}
	}
	// slice contents: pinned through the element aliases (name!e<i> is a definition select(data, i))
	defByName := map[string]Def{}
	for _, d := range ex.Defs {
		defByName[d.Name] = d
	}
	for _, n := range names {
		d, ok := defByName[n]
		if !ok || !strings.Contains(n, "!e") || strings.HasSuffix(n, "!val") || strings.HasSuffix(n, "!words") {
			continue
		}
		if v, ok := ModelInt(model[n]); ok {
			switch d.S.K {
			case SBV:
				pins = append(pins, Eq(d.T, BVC(v, d.S.W)))
			case SInt:
				pins = append(pins, Eq(d.T, IntBig(v)))
			}
		}
	}
	for n, v := range model {
		if i := strings.Index(n, "!e"); i > 0 && strings.HasSuffix(n[:i], "") {
			_ = v
		}
	}
	entryEnv := &SpecEnv{ex: ex, st: ex.Entry, vars: ex.ParamVals, pkg: fn.Pkg.Pkg, contract: c}
	entryEnv.vtypes = map[string]types.Type{}
	for i, prm := range fn.Params {
		entryEnv.vtypes[fr.ParamNames[i]] = prm.Type()
	}
	var verdict string
	ask := func(label string, asserts ...*Term) string {
		q := &Query{Defs: ex.Defs}
		for _, n := range sortedKeys(ex.Funs) {
			if conc, ok := ufunConcrete[strings.TrimPrefix(n, "0uf_")]; ok && strings.HasPrefix(n, "0uf_") {
				q.Funs = append(q.Funs, conc)
				continue
			}
			q.Funs = append(q.Funs, ex.Funs[n])
		}
		q.Asserts = append(q.Asserts, ex.Assumes...)
		q.Asserts = append(q.Asserts, pins...)
		q.Asserts = append(q.Asserts, asserts...)
		ans := Solve(q, "judge."+label, SolverCfg{Timeout: 20 * time.Second, WorkDir: work})
		if os.Getenv("VERIF_DEBUG_REPLAY") != "" {
			fmt.Fprintf(os.Stderr, "  judge %s: %s (%s %.2fs) %s\n", label, ans.Result, ans.Solver, ans.TimeS, ans.File)
		} else {
			os.Remove(ans.File)
		}
		return ans.Result
	}
	var res string
	func() {
		defer func() {
			if r := recover(); r != nil {
				verdict = fmt.Sprintf("could not evaluate contract on the observation: %v", r)
			}
		}()
		if r := ask("sanity"); r == "unsat" {
			verdict = "candidate input is inconsistent with the model's aliasing (not judged)"
			return
		}
		entryEnv.bindLets(c, false)
		// a candidate input outside the precondition says nothing about the contract
		var preT []*Term
		for _, r := range c.Requires {
			preT = append(preT, entryEnv.termBool(r.Expr))
		}
		if len(preT) > 0 {
			if r := ask("pre", And(preT...)); r == "unsat" {
				verdict = "candidate input does not satisfy the precondition (not judged)"
				return
			}
		}
		// the contract's assumed lemma instances hold for the concrete input too
		for _, a := range c.Assume {
			pins = append(pins, entryEnv.termBool(a.Expr))
		}
		var conds []*Term
		for _, f := range c.Fails {
			conds = append(conds, entryEnv.termBool(f.Expr))
		}
		envKinds := map[string]bool{}
		for _, k := range c.Env {
			envKinds[k] = true
		}
		if oc.Panicked {
			kind := oc.PanicType
			kind = strings.TrimPrefix(kind, "*")
			if i := strings.LastIndex(kind, "."); i >= 0 {
				kind = kind[i+1:]
			}
			if oc.Runtime {
				verdict = "real code raised a Go runtime error (" + oc.PanicMsg + "): violates the safety obligations"
				res = "violated"
				return
			}
			if envKinds[kind] {
				verdict = "real code failed with an environment error " + kind
				return
			}
			var allow []*Term
			for i, f := range c.Fails {
				for _, k := range f.Kinds {
					if k == kind {
						allow = append(allow, conds[i])
					}
				}
			}
			r := ask("failkind", Or(allow...))
			if r == "unsat" {
				verdict = fmt.Sprintf("real code panicked with %s (%s) on an input for which the contract allows no such failure", kind, oneLine(oc.PanicMsg))
				res = "violated"
			} else {
				verdict = fmt.Sprintf("real code panicked with %s, which the contract allows for this input (%s)", kind, r)
			}
			return
		}
		// returned normally
		r := ask("fails", Or(conds...))
		if r == "sat" && len(conds) > 0 {
			// with pinned inputs sat means some fail condition holds
			verdict = "real code returned normally on an input for which the contract demands a failure"
			res = "violated"
			return
		}
		// bind observed results
		st := ex.Entry.snapshot()
		if m, ok := new(big.Int).SetString(oc.Metered, 10); ok {
			st.Ghost["metered"] = IntBig(m)
		}
		if oc.RandDraws > 0 {
			// what the replaying random source handed out: number of draws, length and big-endian value of the last one
			// (ghost state draw/drawlen/draws of the C47 contracts; entry values are 0)
			last := make([]byte, 0, len(oc.RandLast)/2)
			for i := 0; i+1 < len(oc.RandLast); i += 2 {
				var b int
				fmt.Sscanf(oc.RandLast[i:i+2], "%02x", &b)
				last = append(last, byte(b))
			}
			if _, have := st.Ghost["draws"]; have {
				st.Ghost["draws"] = IntC(int64(oc.RandDraws))
			}
			if g, have := st.Ghost["drawlen"]; have {
				if g.S.K == SBV {
					st.Ghost["drawlen"] = BVC(big.NewInt(int64(len(last))), g.S.W)
				} else {
					st.Ghost["drawlen"] = IntC(int64(len(last)))
				}
			}
			if g, have := st.Ghost["draw"]; have {
				if g.S.K == SBV {
					tail := last
					if len(tail) > 8 {
						tail = tail[len(tail)-8:]
					}
					st.Ghost["draw"] = BVC(new(big.Int).SetBytes(tail), g.S.W)
				} else {
					st.Ghost["draw"] = IntBig(new(big.Int).SetBytes(last))
				}
			}
		}
		var binds []*Term
		vars := map[string]Val{}
		for k, v := range ex.ParamVals {
			vars[k] = v
		}
		results := fn.Signature.Results()
		ob := &obsBinder{ex: ex, st: st, p: p}
		for i := 0; i < results.Len() && i < len(oc.Results); i++ {
			ex.resultMode = true
			rv := ex.symVal(st, fmt.Sprintf("obs%d", i), results.At(i).Type(), 1)
			ex.resultMode = false
			if iv, isI := rv.(IfaceV); isI && !oc.Results[i].Nil {
				// observed dynamic type is known: make the result a concrete interface value
				if ct := ob.lookupObservedType(oc.Results[i].Type); ct != nil && ob.constructible(ct) {
					ex.resultMode = true
					pl := ex.symVal(st, fmt.Sprintf("obsP%d", i), ct, 1)
					ex.resultMode = false
					if _, opaque := pl.(OpaqueV); !opaque && (oc.Results[i].Int != "" || oc.Results[i].Bool != nil || len(oc.Results[i].Fields) > 0) {
						ob.bind(pl, oc.Results[i], ct)
					}
					_ = iv
					rv = IfaceV{Kind: IntC(int64(p.TypeTag(ct))), Conc: ct, Payload: pl}
				} else {
					ob.bind(rv, oc.Results[i], results.At(i).Type())
				}
			} else {
				ob.bind(rv, oc.Results[i], results.At(i).Type())
			}
			nm := fmt.Sprintf("result%d", i)
			vars[nm] = rv
			if results.Len() == 1 {
				vars["result"] = rv
			}
			if rn := results.At(i).Name(); rn != "" && rn != "_" {
				if _, clash := vars[rn]; !clash {
					vars[rn] = rv
				}
			}
		}
		if ob.err != "" {
			verdict = "observed result not comparable: " + ob.err
			return
		}
		binds = ob.facts
		// post-state of objects passed by pointer: the harness appended their fields after the results
		idx := results.Len()
		for pi, prm := range fn.Params {
			pt, ok := prm.Type().Underlying().(*types.Pointer)
			if !ok {
				continue
			}
			if _, isBasic := pt.Elem().Underlying().(*types.Basic); isBasic {
				// pointer to an integer/boolean variable: the harness appended its final value
				pv, ok := ex.ParamVals[fr.ParamNames[pi]].(PtrV)
				if ok && pv.K == PCell && len(pv.Path) == 0 && idx < len(oc.Results) {
					if _, isScalar := ex.Entry.Cells[pv.Cell].(Scalar); isScalar {
						ex.resultMode = true
						fv := ex.symVal(st, fmt.Sprintf("obsP%d", pi), pt.Elem(), 1)
						ex.resultMode = false
						ob.bind(fv, oc.Results[idx], pt.Elem())
						st.Cells[pv.Cell] = fv
						idx++
					}
				}
				continue
			}
			stt, ok := pt.Elem().Underlying().(*types.Struct)
			if !ok {
				continue
			}
			pv, ok := ex.ParamVals[fr.ParamNames[pi]].(PtrV)
			if !ok || pv.K != PCell || len(oc.Results) < idx+stt.NumFields() {
				continue
			}
			oldV, _ := ex.Entry.Cells[pv.Cell].(StructV)
			nv := StructV{Typ: pt.Elem()}
			for fi := 0; fi < stt.NumFields(); fi++ {
				ft := stt.Field(fi).Type()
				o := oc.Results[idx+fi]
				switch ft.Underlying().(type) {
				case *types.Basic, *types.Interface:
					ex.resultMode = true
					fv := ex.symVal(st, fmt.Sprintf("obsF%d_%d", pi, fi), ft, 1)
					ex.resultMode = false
					ob.bind(fv, o, ft)
					if iv, isI := fv.(IfaceV); isI && !o.Nil {
						if ct := ob.lookupObservedType(o.Type); ct != nil && ob.constructible(ct) && (o.Int != "" || o.Bool != nil) {
							// numeric payload: tie the ghost integer value to the observation
							if n, okN := new(big.Int).SetString(o.Int, 10); okN {
								ob.facts = append(ob.facts, Eq(ex.ifaceGhost(st, iv, "mval"), IntBig(n)))
							}
						}
					}
					nv.F = append(nv.F, fv)
				default:
					if oldV.F != nil {
						nv.F = append(nv.F, oldV.F[fi])
					} else {
						nv.F = append(nv.F, ex.zeroVal(st, ft))
					}
				}
			}
			st.Cells[pv.Cell] = nv
			idx += stt.NumFields()
		}
		binds = ob.facts
		// static types of the results (Go-style conversions in postconditions need them: int(result1))
		pvt := map[string]types.Type{}
		for k, v := range entryEnv.vtypes {
			pvt[k] = v
		}
		for i := 0; i < results.Len(); i++ {
			pvt[fmt.Sprintf("result%d", i)] = results.At(i).Type()
			if results.Len() == 1 {
				pvt["result"] = results.At(i).Type()
			}
			if rn := results.At(i).Name(); rn != "" && rn != "_" {
				if _, clash := pvt[rn]; !clash {
					pvt[rn] = results.At(i).Type()
				}
			}
		}
		penv := &SpecEnv{ex: ex, st: st, old: ex.Entry, vars: vars, vtypes: pvt, pkg: fn.Pkg.Pkg, contract: c}
		penv.bindLets(c, false)
		penv.bindLets(c, true)
		for i, en := range c.Ensures {
			t := penv.termBool(en.Expr)
			r := ask(fmt.Sprintf("post%d", i+1), append(binds, t)...)
			if r == "unsat" {
				verdict = fmt.Sprintf("real code returned %s, violating: ensures %s", describeObs(oc.Results), en.Src)
				res = "violated"
				return
			}
		}
		verdict = "real code's behaviour on this input satisfies the contract (model was an artefact of an abstraction, or of heap cells the modifies clause leaves unconstrained)"
	}()
	return verdict, res == "violated"
}

func sortedKeys(m map[string]string) []string {
	var s []string
	for k := range m {
		s = append(s, k)
	}
	sort.Strings(s)
	return s
}

func describeObs(rs []obsVal) string {
	var parts []string
	for _, r := range rs {
		switch {
		case r.Nil:
			parts = append(parts, "nil")
		case r.Int != "":
			parts = append(parts, r.Type+"("+r.Int+")")
		case r.Bool != nil:
			parts = append(parts, fmt.Sprint(*r.Bool))
		case r.Bytes != nil:
			parts = append(parts, "0x"+*r.Bytes)
		case r.Err != "":
			parts = append(parts, r.Type+": "+r.Err)
		default:
			parts = append(parts, r.Type)
		}
	}
	return strings.Join(parts, ", ")
}

type obsBinder struct {
	ex    *Exec
	st    *State
	p     *Program
	facts []*Term
	err   string
	nref  int
}

func (ob *obsBinder) bind(v Val, o obsVal, t types.Type) {
	ex := ob.ex
	switch x := v.(type) {
	case Scalar:
		if x.T.S.K == SBool {
			if o.Bool == nil {
				ob.err = "expected bool observation"
				return
			}
			ob.facts = append(ob.facts, Eq(x.T, BoolC(*o.Bool)))
			return
		}
		n, ok := new(big.Int).SetString(o.Int, 10)
		if !ok {
			ob.err = "expected integer observation for " + t.String()
			return
		}
		if x.T.S.K == SBV {
			ob.facts = append(ob.facts, Eq(x.T, BVC(n, x.T.S.W)))
		} else {
			ob.facts = append(ob.facts, Eq(x.T, IntBig(n)))
		}
	case IfaceV:
		if o.Nil {
			ob.facts = append(ob.facts, Eq(x.Kind, IntC(0)))
			return
		}
		ct := ob.lookupObservedType(o.Type)
		if ct == nil {
			// a dynamic type outside the loaded universe (e.g. *errors.errorString): only non-nil-ness is known
			ob.facts = append(ob.facts, Neq(x.Kind, IntC(0)))
			return
		}
		ob.facts = append(ob.facts, Eq(x.Kind, IntC(int64(ob.p.TypeTag(ct)))))
		ex.resultMode = true
		pl := ex.payload(ob.st, x, ct)
		ex.resultMode = false
		if _, isStructOrScalar := pl.(OpaqueV); !isStructOrScalar {
			if o.Int != "" || o.Bool != nil {
				ob.bind(pl, o, ct)
			}
		}
	case StructV:
		st := x.Typ.Underlying().(*types.Struct)
		if st.NumFields() == 1 && isBigIntPtr(st.Field(0).Type()) {
			ob.bind(x.F[0], o, st.Field(0).Type())
			return
		}
		if st.NumFields() == 0 {
			return
		}
		for i := 0; i < st.NumFields(); i++ {
			fo, ok := o.Fields[st.Field(i).Name()]
			if !ok {
				continue
			}
			switch x.F[i].(type) {
			case Scalar, StructV:
				ob.bind(x.F[i], fo, st.Field(i).Type())
			case PtrV:
				if isBigIntPtr(st.Field(i).Type()) {
					ob.bind(x.F[i], fo, st.Field(i).Type())
				}
			}
		}
	case PtrV:
		if x.K == PBig {
			if o.Nil {
				ob.facts = append(ob.facts, Eq(x.Ref, IntC(0)))
				return
			}
			n, ok := new(big.Int).SetString(o.Int, 10)
			if !ok {
				ob.err = "expected big integer observation"
				return
			}
			ob.nref++
			ref := IntC(int64(-5000000 - ob.nref))
			ob.st.Big = Store(ob.st.Big, ref, IntBig(n))
			ob.facts = append(ob.facts, Eq(x.Ref, ref))
			return
		}
		ob.err = "pointer observation not supported"
	case SliceV:
		if o.Nil || x.Region == nil {
			ob.facts = append(ob.facts, Eq(x.Len, ex.idxConst(0)))
			return
		}
		ob.facts = append(ob.facts, Eq(x.Len, ex.idxConst(int64(o.Len))))
		if o.Bytes != nil {
			h := *o.Bytes
			mem := ob.st.Mem[x.Region]
			for i := 0; i+1 < len(h) && i/2 < 4096; i += 2 {
				var b int64
				fmt.Sscanf(h[i:i+2], "%02x", &b)
				var c *Term
				if mem.S.Elem.K == SBV {
					c = BVC(big.NewInt(b), mem.S.Elem.W)
				} else {
					c = IntC(b)
				}
				ob.facts = append(ob.facts, Eq(Select(mem, ex.idxAdd(x.Off, ex.idxConst(int64(i/2)))), c))
			}
		}
	case OpaqueV, StringV:
		// not compared
	default:
		ob.err = fmt.Sprintf("observation of %T not supported", v)
	}
}

func (ob *obsBinder) lookupObservedType(name string) types.Type {
	// %T gives "interpreter.Int8Value" or "*interpreter.OverflowError"
	ptr := strings.HasPrefix(name, "*")
	n := strings.TrimPrefix(name, "*")
	t := ob.p.LookupType(n, nil)
	if t == nil {
		return nil
	}
	if ptr {
		return types.NewPointer(t)
	}
	return t
}


// constructible: can a payload of this dynamic type be bound from an observation (numeric values, small structs)
func (ob *obsBinder) constructible(t types.Type) bool {
	if _, _, ok := intInfo(t); ok {
		return true
	}
	if isBool(t) {
		return true
	}
	if st, ok := t.Underlying().(*types.Struct); ok {
		return st.NumFields() <= 2
	}
	return false
}

func collectValSyms(v Val, out map[string]Sort) {
	switch x := v.(type) {
	case Scalar:
		CollectSyms(x.T, out)
	case StructV:
		for _, f := range x.F {
			collectValSyms(f, out)
		}
	case SliceV:
		if x.Region != nil {
			CollectSyms(x.Len, out)
			CollectSyms(x.Cap, out)
			CollectSyms(x.Off, out)
		}
	case PtrV:
		if x.Ref != nil {
			CollectSyms(x.Ref, out)
		}
	case IfaceV:
		if x.Kind != nil {
			CollectSyms(x.Kind, out)
		}
		if x.Sym != nil {
			for _, p := range x.Sym.Payloads {
				collectValSyms(p, out)
			}
			for _, g := range x.Sym.Ghosts {
				CollectSyms(g, out)
			}
		}
	}
}

// fromInt: a Go expression for the value of numeric type t whose integer value is n (integer kinds only)
func (me *modelEnv) fromInt(t types.Type, n *big.Int) (string, bool) {
	// fixed-point kinds: the ghost integer part n denotes the value n.0, whose raw representation is n * 10^scale
	if nt, ok := t.(*types.Named); ok && strings.Contains(nt.Obj().Name(), "Fix") {
		name := nt.Obj().Name()
		scale := 8
		if strings.Contains(name, "128") {
			scale = 24
		}
		raw := new(big.Int).Mul(n, new(big.Int).Exp(big.NewInt(10), big.NewInt(int64(scale)), nil))
		if st, ok := t.Underlying().(*types.Struct); ok && st.NumFields() == 2 && st.Field(0).Name() == "Hi" && st.Field(1).Name() == "Lo" {
			signed := !strings.HasPrefix(name, "U")
			lo, hi := big.NewInt(0), new(big.Int).Sub(Pow2(128), big.NewInt(1))
			if signed {
				lo, hi = new(big.Int).Neg(Pow2(127)), new(big.Int).Sub(Pow2(127), big.NewInt(1))
			}
			if raw.Cmp(lo) < 0 || raw.Cmp(hi) > 0 {
				return "", false
			}
			u := new(big.Int).Set(raw)
			if u.Sign() < 0 {
				u.Add(u, Pow2(128))
			}
			h := new(big.Int).Rsh(u, 64)
			l := new(big.Int).And(u, new(big.Int).Sub(Pow2(64), big.NewInt(1)))
			return fmt.Sprintf("%s{Hi: %s, Lo: %s}", me.qual(t), h, l), true
		}
		return me.fromRaw(t, raw)
	}
	return me.fromRaw(t, n)
}

// fromRaw: a value of integer-like type t whose representation is the integer n
func (me *modelEnv) fromRaw(t types.Type, n *big.Int) (string, bool) {
	if bits, signed, ok := intInfo(t); ok {
		lo, hi := big.NewInt(0), new(big.Int).Sub(Pow2(bits), big.NewInt(1))
		if signed {
			lo, hi = new(big.Int).Neg(Pow2(bits-1)), new(big.Int).Sub(Pow2(bits-1), big.NewInt(1))
		}
		if n.Cmp(lo) < 0 || n.Cmp(hi) > 0 {
			return "", false
		}
		return fmt.Sprintf("%s(%s)", me.qual(t), n), true
	}
	st, ok := t.Underlying().(*types.Struct)
	if !ok || st.NumFields() != 1 {
		return "", false
	}
	ft := st.Field(0).Type()
	if isBigIntPtr(ft) {
		return fmt.Sprintf("%s{%s: verifBig(%q)}", me.qual(t), st.Field(0).Name(), n.String()), true
	}
	if inner, ok := me.fromRaw(ft, n); ok {
		return fmt.Sprintf("%s{%s: %s}", me.qual(t), st.Field(0).Name(), inner), true
	}
	return "", false
}
