package engine

// LoadConsts evaluates package-level values the verified code reads (see constdump).
func (p *Program) LoadConsts() error {
	return nil
}
