package engine

import (
	"bytes"
	"encoding/json"
	"fmt"
	"go/token"
	"go/types"
	"os"
	"os/exec"
	"path/filepath"
	"sort"
	"strings"
)

// LoadConsts evaluates, from the real package initialisers of the current working tree, the values of
// package-level *big.Int and integer variables of every cadence package that has a contract file.
// A helper file is added to each such package through a build overlay (nothing is written into /repo),
// a tiny main program prints the values, and the verifier uses them as the values of those globals.
func (p *Program) LoadConsts() error {
	type gv struct {
		pkg, name string
		big      bool
	}
	byPkg := map[string][]gv{}
	ifaceVars := map[string]bool{}
	ptrFields := map[string]bool{}
	tables := map[string][][3]string{} // package -> (variable, field, "int"|"func")
	sliceTables := map[string][][3]string{}
	var pkgPaths []string
	wantPkg := map[string]bool{}
	for _, f := range p.CS.Files {
		if !strings.HasSuffix(f, "zz_verif_contracts.go") {
			continue
		}
		rel, _ := filepath.Rel(p.Repo, filepath.Dir(f))
		pp := cadenceMod
		if rel != "." {
			pp += "/" + filepath.ToSlash(rel)
		}
		wantPkg[pp] = true
	}
	// sema constants are read by interpreter code
	for _, extra := range []string{cadenceMod + "/sema", cadenceMod + "/fixedpoint", cadenceMod + "/values", cadenceMod + "/common",
		"github.com/onflow/fixed-point"} {
		wantPkg[extra] = true
	}
	pkgName := map[string]string{}
	for _, sp := range p.Prog.AllPackages() {
		pp := sp.Pkg.Path()
		if !wantPkg[pp] {
			continue
		}
		pkgName[pp] = sp.Pkg.Name()
		scope := sp.Pkg.Scope()
		for _, n := range scope.Names() {
			v, ok := scope.Lookup(n).(*types.Var)
			if !ok || n == "_" {
				continue
			}
			if isBigIntPtr(v.Type()) {
				byPkg[pp] = append(byPkg[pp], gv{pp, n, true})
			} else if _, _, isInt := intInfo(v.Type()); isInt {
				byPkg[pp] = append(byPkg[pp], gv{pp, n, false})
			} else if _, isIface := v.Type().Underlying().(*types.Interface); isIface {
				byPkg[pp] = append(byPkg[pp], gv{pp, n, false})
				ifaceVars[pp+"."+n] = true
			} else if pt, ok := v.Type().Underlying().(*types.Pointer); ok {
				// pointers to structs (sema.UInt8Type ...): the integer fields of the pointee, "Name->field"
				if st, ok := pt.Elem().Underlying().(*types.Struct); ok && strings.HasPrefix(pp, cadenceMod) {
					for i := 0; i < st.NumFields(); i++ {
						if _, _, isInt := intInfo(st.Field(i).Type()); isInt {
							byPkg[pp] = append(byPkg[pp], gv{pp, n + "->" + st.Field(i).Name(), false})
							ptrFields[pp+"."+n+"->"+st.Field(i).Name()] = true
						} else if isBigIntPtr(st.Field(i).Type()) {
							byPkg[pp] = append(byPkg[pp], gv{pp, n + "->" + st.Field(i).Name(), true})
							ptrFields[pp+"."+n+"->"+st.Field(i).Name()] = true
						}
					}
				}
			} else if mt, ok := v.Type().Underlying().(*types.Map); ok && strings.HasPrefix(pp, cadenceMod) {
				// dispatch tables map[string]struct{...}: per key, the integer fields and the names of the functions
				// held in function-typed fields ("Var[key].Field")
				if kb, ok := mt.Key().Underlying().(*types.Basic); ok && kb.Kind() == types.String {
					if st, ok := mt.Elem().Underlying().(*types.Struct); ok {
						for i := 0; i < st.NumFields(); i++ {
							if !st.Field(i).Exported() && pp != cadenceMod {
								// unexported fields are fine too (the dump file is part of the package)
							}
							if _, _, isInt := intInfo(st.Field(i).Type()); isInt {
								tables[pp] = append(tables[pp], [3]string{n, st.Field(i).Name(), "int"})
							} else if _, isFn := st.Field(i).Type().Underlying().(*types.Signature); isFn {
								tables[pp] = append(tables[pp], [3]string{n, st.Field(i).Name(), "func"})
							}
						}
					}
				}
			} else if sl, ok := v.Type().Underlying().(*types.Slice); ok && strings.HasPrefix(pp, cadenceMod) {
				// dispatch tables written as a slice of structs with a string field Name (ConverterDeclarations): keyed by
				// that name, like the map-shaped tables
				if st, ok := sl.Elem().Underlying().(*types.Struct); ok {
					hasName := false
					for i := 0; i < st.NumFields(); i++ {
						if b, isB := st.Field(i).Type().Underlying().(*types.Basic); isB && b.Kind() == types.String && st.Field(i).Name() == "Name" {
							hasName = true
						}
					}
					if hasName {
						for i := 0; i < st.NumFields(); i++ {
							if _, _, isInt := intInfo(st.Field(i).Type()); isInt {
								sliceTables[pp] = append(sliceTables[pp], [3]string{n, st.Field(i).Name(), "int"})
							} else if _, isFn := st.Field(i).Type().Underlying().(*types.Signature); isFn {
								sliceTables[pp] = append(sliceTables[pp], [3]string{n, st.Field(i).Name(), "func"})
							}
						}
					}
				}
			} else if st, ok := v.Type().Underlying().(*types.Struct); ok && st.NumFields() > 0 && st.NumFields() <= 4 {
				// small structs of integers (MemoryUsage, ComputationUsage): one entry per field
				allInt := true
				for i := 0; i < st.NumFields(); i++ {
					if _, _, isInt := intInfo(st.Field(i).Type()); !isInt {
						allInt = false
					}
				}
				if allInt {
					for i := 0; i < st.NumFields(); i++ {
						byPkg[pp] = append(byPkg[pp], gv{pp, n + "." + st.Field(i).Name(), false})
					}
				}
			}
		}
		if len(byPkg[pp]) > 0 || len(tables[pp]) > 0 || len(sliceTables[pp]) > 0 {
			pkgPaths = append(pkgPaths, pp)
		}
	}
	sort.Strings(pkgPaths)
	if len(pkgPaths) == 0 {
		return nil
	}
	work := filepath.Join(VerifDir, ".work", "constdump")
	os.MkdirAll(work, 0o755)
	overlay := map[string]string{}
	var mainSrc bytes.Buffer
	mainSrc.WriteString("package main\n\nimport (\n\t\"fmt\"\n")
	for i, pp := range pkgPaths {
		fmt.Fprintf(&mainSrc, "\tp%d %q\n", i, pp)
	}
	mainSrc.WriteString(")\n\nfunc main() {\n\temit := func(n, v string) { fmt.Printf(\"%s\\t%s\\n\", n, v) }\n")
	for i, pp := range pkgPaths {
		if !strings.HasPrefix(pp, cadenceMod) {
			for _, g := range byPkg[pp] {
				base := strings.SplitN(strings.SplitN(g.name, ".", 2)[0], "->", 2)[0]
				if !token.IsExported(base) || g.big || ifaceVars[pp+"."+g.name] || ptrFields[pp+"."+g.name] {
					continue
				}
				fmt.Fprintf(&mainSrc, "\temit(%q, fmt.Sprint(p%d.%s))\n", pp+"."+g.name, i, g.name)
			}
			continue
		}
		fmt.Fprintf(&mainSrc, "\tp%d.VerifDumpConsts(emit)\n", i)
		var src bytes.Buffer
		fmt.Fprintf(&src, "package %s\n\nimport (\n\tverifFmt \"fmt\"\n\tverifBig \"math/big\"\n\tverifReflect \"reflect\"\n\tverifRuntime \"runtime\"\n)\n\nvar _ = verifFmt.Sprint\nvar _ *verifBig.Int\n\n", pkgName[pp])
		src.WriteString("func verifFuncName(f any) string {\n\tv := verifReflect.ValueOf(f)\n\tif !v.IsValid() || v.Kind() != verifReflect.Func || v.IsNil() {\n\t\treturn \"nil\"\n\t}\n\tif fn := verifRuntime.FuncForPC(v.Pointer()); fn != nil {\n\t\tfile, line := fn.FileLine(fn.Entry())\n\t\treturn verifFmt.Sprintf(\"%s@%s:%d\", fn.Name(), file, line)\n\t}\n\treturn \"?\"\n}\n\n")
		src.WriteString("func VerifDumpConsts(emit func(name, val string)) {\n")
		src.WriteString("\tb := func(x *verifBig.Int) string { if x == nil { return \"nil\" }; return x.String() }\n\t_ = b\n")
		for _, g := range byPkg[pp] {
			if g.big && ptrFields[pp+"."+g.name] {
				parts := strings.SplitN(g.name, "->", 2)
				fmt.Fprintf(&src, "\tif %s != nil { emit(%q, b(%s.%s)) }\n", parts[0], pp+"."+g.name, parts[0], parts[1])
			} else if g.big {
				fmt.Fprintf(&src, "\temit(%q, b(%s))\n", pp+"."+g.name, g.name)
			} else if ifaceVars[pp+"."+g.name] {
				fmt.Fprintf(&src, "\tif %s == nil { emit(%q, \"nil\") } else { emit(%q, verifFmt.Sprintf(\"nonnil:%%T\", %s)) }\n", g.name, pp+"."+g.name, pp+"."+g.name, g.name)
			} else if ptrFields[pp+"."+g.name] {
				parts := strings.SplitN(g.name, "->", 2)
				fmt.Fprintf(&src, "\tif %s != nil { emit(%q, verifFmt.Sprint(%s.%s)) }\n", parts[0], pp+"."+g.name, parts[0], parts[1])
			} else {
				fmt.Fprintf(&src, "\temit(%q, verifFmt.Sprint(%s))\n", pp+"."+g.name, g.name)
			}
		}
		for _, tb := range tables[pp] {
			if tb[2] == "int" {
				fmt.Fprintf(&src, "\tfor k, e := range %s { emit(%q+\"[\"+k+\"].%s\", verifFmt.Sprint(e.%s)) }\n", tb[0], pp+"."+tb[0], tb[1], tb[1])
			} else {
				fmt.Fprintf(&src, "\tfor k, e := range %s { emit(%q+\"[\"+k+\"].%s\", \"func:\"+verifFuncName(e.%s)) }\n", tb[0], pp+"."+tb[0], tb[1], tb[1])
			}
		}
		for _, tb := range sliceTables[pp] {
			if tb[2] == "int" {
				fmt.Fprintf(&src, "\tfor _, e := range %s { emit(%q+\"[\"+e.Name+\"].%s\", verifFmt.Sprint(e.%s)) }\n", tb[0], pp+"."+tb[0], tb[1], tb[1])
			} else {
				fmt.Fprintf(&src, "\tfor _, e := range %s { emit(%q+\"[\"+e.Name+\"].%s\", \"func:\"+verifFuncName(e.%s)) }\n", tb[0], pp+"."+tb[0], tb[1], tb[1])
			}
		}
		src.WriteString("}\n")
		rel := strings.TrimPrefix(strings.TrimPrefix(pp, cadenceMod), "/")
		gen := filepath.Join(work, fmt.Sprintf("dump_%d.go", i))
		if err := os.WriteFile(gen, src.Bytes(), 0o644); err != nil {
			return err
		}
		overlay[filepath.Join(p.Repo, rel, "zz_verif_dump.go")] = gen
	}
	mainSrc.WriteString("}\n")
	mainFile := filepath.Join(work, "main.go")
	if err := os.WriteFile(mainFile, mainSrc.Bytes(), 0o644); err != nil {
		return err
	}
	overlay[filepath.Join(p.Repo, "cmd", "zz_verif_constdump", "main.go")] = mainFile
	ovJSON, _ := json.Marshal(map[string]any{"Replace": overlay})
	ovFile := filepath.Join(work, "overlay.json")
	if err := os.WriteFile(ovFile, ovJSON, 0o644); err != nil {
		return err
	}
	bin := filepath.Join(work, "constdump.bin")
	cmd := exec.Command("go", "build", "-overlay", ovFile, "-o", bin, "./cmd/zz_verif_constdump")
	cmd.Dir = p.Repo
	cmd.Env = append(os.Environ(), "GOFLAGS=-mod=mod", "GOPROXY=off")
	if out, err := cmd.CombinedOutput(); err != nil {
		return fmt.Errorf("constdump build: %v\n%s", err, out)
	}
	out, err := exec.Command(bin).Output()
	if err != nil {
		return fmt.Errorf("constdump run: %v", err)
	}
	nextID := 1000001
	var names []string
	vals := map[string]string{}
	for _, l := range strings.Split(strings.TrimSpace(string(out)), "\n") {
		f := strings.SplitN(l, "\t", 2)
		if len(f) != 2 {
			continue
		}
		names = append(names, f[0])
		vals[f[0]] = f[1]
	}
	sort.Strings(names)
	bigSet := map[string]bool{}
	for _, gs := range byPkg {
		for _, g := range gs {
			if g.big {
				bigSet[g.pkg+"."+g.name] = true
			}
		}
	}
	for _, n := range names {
		if bigSet[n] {
			if vals[n] == "nil" {
				p.Consts[n] = "nil" // a nil *big.Int (sema.IntType's bounds): recorded, it has no heap cell
				continue
			}
			p.BigGlobals[n] = nextID
			nextID++
		}
		p.Consts[n] = vals[n]
	}
	return nil
}
