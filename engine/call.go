package engine

import (
	"fmt"
	"go/ast"
	"go/token"
	"go/types"
	"regexp"
	"strings"

	"golang.org/x/tools/go/ssa"
)

func (ex *Exec) call(st *State, fr *Frame, x *ssa.Call) bool {
	cc := x.Common()
	if b, ok := cc.Value.(*ssa.Builtin); ok {
		return ex.builtin(st, fr, x, b)
	}
	var args []Val
	for _, a := range cc.Args {
		args = append(args, ex.val(fr, a, st))
	}
	if cc.IsInvoke() {
		recv, ok := ex.val(fr, cc.Value, st).(IfaceV)
		if !ok {
			ex.reject("invoke on non-interface value")
		}
		return ex.invoke(st, fr, x, recv, args)
	}
	var fn *ssa.Function
	var bind []Val
	switch v := ex.val(fr, cc.Value, st).(type) {
	case ClosureV:
		fn, bind = v.Fn, v.Bind
	case OpaqueV:
		// a function value the verifier knows nothing about (a callback parameter such as the checker's
		// `report`): with `option opaquecalls=noop` the call is assumed to return normally, to change nothing the
		// contract talks about, and to return arbitrary values (listed among the assumptions)
		if ex.C.Options["opaquecalls"] != "noop" {
			ex.reject("call of unknown function value %s in %s", valString(v), fr.Fn)
		}
		ex.safety(st, "nil-deref", ex.siteName(fr, x, "nil"), Neq(v.Id, IntC(0)))
		ex.UsedAssumed["opaque function value (callback assumed to return normally without visible effect)"] = true
		sig, ok := cc.Value.Type().Underlying().(*types.Signature)
		if !ok {
			ex.reject("call of opaque non-function value")
		}
		var rets []Val
		for i := 0; i < sig.Results().Len(); i++ {
			save := ex.Inputs
			ex.resultMode = true
			rets = append(rets, ex.symVal(st, fmt.Sprintf("cb%d_%d", i, ex.nfreshNext()), sig.Results().At(i).Type(), 1))
			ex.resultMode = false
			ex.Inputs = save
		}
		ex.bindResult(fr, x, rets)
		return false
	default:
		ex.reject("call of unknown function value %s in %s", valString(v), fr.Fn)
	}
	return ex.callFn(st, fr, x, fn, bind, args)
}

func funcKey(fn *ssa.Function) string {
	if o := fn.Origin(); o != nil {
		return o.String()
	}
	return fn.String()
}

func (ex *Exec) callFn(st *State, fr *Frame, x *ssa.Call, fn *ssa.Function, bind []Val, args []Val) bool {
	key := funcKey(fn)
	c := ex.P.CS.Funcs[key]
	if c == nil && fn.Parent() == nil {
		if wc, ok := ex.P.CS.Funcs["*."+fn.Name()]; ok {
			c, key = wc, "*."+fn.Name()
		}
	}
	if c == nil && len(ex.P.CS.Instances[key]) > 0 {
		var pnames []string
		for _, p := range fn.Params {
			pnames = append(pnames, p.Name())
		}
		var tp *types.Package
		if fn.Pkg != nil {
			tp = fn.Pkg.Pkg
		}
		c, key = ex.resolveInstance(st, key, pnames, args, tp)
	}
	if fn.Parent() != nil || (c != nil && c.Inline) {
		if fn.Blocks == nil {
			ex.reject("inline of function without body: %s", key)
		}
		if fr.Depth > 12 {
			ex.reject("inline depth exceeded at %s", key)
		}
		if c != nil {
			ex.Inlined[key] = true
		}
		ex.pushFrame(st, fn, bind, args, x, fr.Depth+1)
		return false
	}
	if c == nil && fn.Blocks != nil && fn.Pkg != nil && ex.autoInlinePkg(fn.Pkg.Pkg.Path()) && fr.Depth <= 6 {
		// A repository function nobody wrote a contract for (e.g. a helper extracted by a refactoring): its body is
		// executed in place, like an `inline` contract would. Recursion is not followed.
		rec := false
		for _, f := range st.Frames {
			if f.Fn == fn {
				rec = true
			}
		}
		if !rec {
			ex.Inlined["auto:"+key] = true
			ex.pushFrame(st, fn, bind, args, x, fr.Depth+1)
			return false
		}
	}
	if c == nil && fn.Blocks != nil && strings.HasPrefix(fn.Synthetic, "bound method wrapper") && fr.Depth <= 8 {
		// x.M as a function value: the compiler-made wrapper only calls M on the bound receiver; executed in place
		ex.pushFrame(st, fn, bind, args, x, fr.Depth+1)
		return false
	}
	if c == nil {
		ex.reject("call to %s without contract (in %s)", key, fr.Fn)
	}
	if c.Assumed {
		ex.UsedAssumed[key] = true
	} else {
		ex.UsedContracts[key] = true
	}
	var names []string
	for _, p := range fn.Params {
		names = append(names, p.Name())
	}
	if len(c.Params) > 0 {
		names = c.Params
	}
	if c.Options["self"] == "recv" && len(names) > 0 {
		// a contract instantiated from an interface contract's text speaks about the receiver as `self`
		names = append([]string{"self"}, names[1:]...)
	}
	sig := fn.Signature
	ex.pendingParamTypes = nil
	for _, p := range fn.Params {
		ex.pendingParamTypes = append(ex.pendingParamTypes, p.Type())
	}
	ex.pendingCallee = fn
	return ex.applyContract(st, fr, x, c, key, names, args, sig.Results(), fn.Pkg)
}

func (ex *Exec) pushFrame(st *State, fn *ssa.Function, bind []Val, args []Val, retTo ssa.Value, depth int) {
	nf := &Frame{Fn: fn, Vals: map[ssa.Value]Val{}, Names: map[string]nameRef{}, Block: fn.Blocks[0], Visits: map[int]int{},
		Bind: bind, Depth: depth, RetTo: retTo, Cut: map[int]bool{}}
	if len(args) != len(fn.Params) {
		ex.reject("arity mismatch calling %s", fn)
	}
	for i, p := range fn.Params {
		nf.Vals[p] = args[i]
		nf.Names[p.Name()] = nameRef{V: args[i], Typ: p.Type()}
	}
	st.Frames = append(st.Frames, nf)
}

func (ex *Exec) bindResult(fr *Frame, x ssa.Value, rets []Val) {
	switch len(rets) {
	case 0:
	case 1:
		fr.Vals[x] = rets[0]
	default:
		fr.Vals[x] = TupleV{E: rets}
	}
}

// invoke: interface method call
func (ex *Exec) invoke(st *State, fr *Frame, x *ssa.Call, recv IfaceV, args []Val) bool {
	cc := x.Common()
	m := cc.Method
	if recv.Conc != nil {
		sel := ex.P.Prog.MethodSets.MethodSet(recv.Conc).Lookup(m.Pkg(), m.Name())
		if sel == nil {
			ex.reject("method %s not found on %s", m.Name(), recv.Conc)
		}
		fn := ex.P.Prog.MethodValue(sel)
		if fn == nil {
			ex.reject("no SSA function for %s.%s", recv.Conc, m.Name())
		}
		return ex.callFn(st, fr, x, fn, nil, append([]Val{recv.Payload}, args...))
	}
	if recv.Sym == nil {
		ex.safety(st, "nil-deref", ex.siteName(fr, x, "nil"), False)
		return true
	}
	// symbolic receiver: interface contract, looked up by method name over interfaces the static type embeds
	c, key := ex.ifaceContract(cc.Value.Type(), m)
	if c == nil {
		if wc, ok := ex.P.CS.Funcs["*."+m.Name()]; ok {
			c, key = wc, "*."+m.Name()
		}
	}
	if c == nil {
		ex.reject("invoke %s.%s on symbolic receiver without interface contract (in %s)", cc.Value.Type(), m.Name(), fr.Fn)
	}
	ex.safety(st, "nil-deref", ex.siteName(fr, x, "nil"), Neq(recv.Kind, IntC(0)))
	ex.UsedAssumed[key] = true
	sig := m.Type().(*types.Signature)
	names := []string{"self"}
	for i := 0; i < sig.Params().Len(); i++ {
		n := sig.Params().At(i).Name()
		if n == "" || n == "_" {
			n = fmt.Sprintf("arg%d", i)
		}
		names = append(names, n)
	}
	if len(c.Params) > 0 {
		names = c.Params
	}
	return ex.applyContract(st, fr, x, c, key, names, append([]Val{recv}, args...), sig.Results(), fr.Fn.Pkg)
}

func (ex *Exec) ifaceContract(static types.Type, m *types.Func) (*Contract, string) {
	// exact: <pkgpath>.<Iface>.<method>
	if n, ok := static.(*types.Named); ok && n.Obj().Pkg() != nil {
		k := n.Obj().Pkg().Path() + "." + n.Obj().Name() + "." + m.Name()
		if c, ok := ex.P.CS.Funcs[k]; ok && c.Iface {
			return c, k
		}
	}
	// any iface contract for an interface that declares this very method object
	for _, k := range ex.P.CS.Order {
		c := ex.P.CS.Funcs[k]
		if !c.Iface || !strings.HasSuffix(k, "."+m.Name()) {
			continue
		}
		tn := strings.TrimSuffix(k, "."+m.Name())
		it := ex.P.LookupType(tn, nil)
		if it == nil {
			continue
		}
		iface, ok := it.Underlying().(*types.Interface)
		if !ok {
			continue
		}
		for i := 0; i < iface.NumMethods(); i++ {
			if iface.Method(i) == m || (iface.Method(i).Name() == m.Name() && types.Identical(iface.Method(i).Type(), m.Type())) {
				if types.Implements(static, iface) || types.AssignableTo(static, it) {
					return c, k
				}
			}
		}
	}
	return nil, ""
}

// applyContract replaces a call by the callee's contract.
func (ex *Exec) applyContract(st *State, fr *Frame, x *ssa.Call, c *Contract, key string, names []string, args []Val, results *types.Tuple, pkg *ssa.Package) bool {
	short := shortFn(key)
	callee := ex.pendingCallee
	ex.pendingCallee = nil
	// ghosts of the callee that its preconditions constrain must be instantiated by the caller (callghost)
	instGhost := map[string]Val{}
	for _, g := range c.Ghosts {
		constrained := false
		for _, r := range c.Requires {
			if regexp.MustCompile(`\b` + regexp.QuoteMeta(g[0]) + `\b`).MatchString(r.Src) {
				constrained = true
			}
		}
		var inst *LetDef
		// the instantiation is written in the contract of the function under verification (also for calls made
		// from bodies it executes inline)
		for _, cc := range []*Contract{ex.contractFor(fr.Fn), ex.C} {
			if cc == nil || inst != nil {
				continue
			}
			base := short[strings.LastIndex(short, ".")+1:]
			ordSfx := fmt.Sprintf("#%d", ex.callOrdinal(fr, x))
			for i := range cc.CallGhosts {
				nm := cc.CallGhosts[i].Name
				// `callghost f#2.G = E` instantiates G at the second call of f only (ordinal among the calls of f in
				// the calling function's text); it takes precedence over `callghost f.G = E`
				if nm == short+ordSfx+"."+g[0] || nm == base+ordSfx+"."+g[0] {
					inst = &cc.CallGhosts[i]
					break
				}
				if nm == short+"."+g[0] || nm == base+"."+g[0] {
					inst = &cc.CallGhosts[i]
				}
			}
		}
		if inst == nil {
			if !constrained {
				continue // a ghost that only occurs in postconditions: any fresh value is a sound instance
			}
			ex.reject("contract of %s constrains ghost %s in a precondition: the caller must instantiate it (callghost %s.%s = ...)", key, g[0], short, g[0])
		}
		genv := &SpecEnv{ex: ex, st: ex.Entry, vars: ex.ParamVals, contract: ex.C}
		if ex.Fn != nil && ex.Fn.Pkg != nil {
			genv.pkg = ex.Fn.Pkg.Pkg
		}
		gv, _ := genv.eval(inst.Expr)
		if u, ok := gv.(UConst); ok {
			gv = Scalar{IntBig(u.V)}
		}
		instGhost[g[0]] = gv
	}
	ex.siteCnt[short]++
	site := fmt.Sprintf("%s#%d", short, ex.callOrdinal(fr, x))
	if fr.Fn != ex.Fn {
		site = ex.frameShort(fr) + ":" + site
	}
	vars := map[string]Val{}
	vtypes := map[string]types.Type{}
	for i, n := range names {
		if i < len(args) {
			vars[n] = args[i]
			if i < len(ex.pendingParamTypes) {
				vtypes[n] = ex.pendingParamTypes[i]
			}
		}
	}
	ex.pendingParamTypes = nil
	var tpkg *types.Package
	if pkg != nil {
		tpkg = pkg.Pkg
	}
	// ghosts that only occur in postconditions are universally quantified there: any fresh value is a sound instance
	for _, g := range c.Ghosts {
		if iv, ok := instGhost[g[0]]; ok {
			vars[g[0]] = iv
			continue
		}
		if g[1] == "mathint" {
			vars[g[0]] = Scalar{ex.fresh("gh_"+g[0], IntSort)}
			continue
		}
		if gt := basicTypeByName(g[1]); gt != nil {
			save := ex.Inputs
			ex.resultMode = true
			vars[g[0]] = ex.symVal(st, fmt.Sprintf("gh_%s_%d", g[0], ex.nfreshNext()), gt, 1)
			ex.resultMode = false
			ex.Inputs = save
		}
	}
	old := st.snapshot()
	for i := 0; i < results.Len(); i++ {
		if rn := results.At(i).Name(); rn != "" && rn != "_" {
			vtypes[rn] = results.At(i).Type()
		}
		if results.Len() == 1 {
			vtypes["result"] = results.At(i).Type()
		}
		vtypes[fmt.Sprintf("result%d", i)] = results.At(i).Type()
	}
	env := &SpecEnv{ex: ex, st: st, old: old, vars: vars, vtypes: vtypes, pkg: tpkg, contract: c, assuming: true}
	env.bindLets(c, false)
	// preconditions
	for i, r := range c.Requires {
		t := env.termBool(r.Expr)
		if !t.IsTrue() {
			ex.Side = append(ex.Side, SideObl{Name: fmt.Sprintf("call.pre.%s.%d", site, i+1), PC: append([]*Term{}, st.PC...), Cond: t})
			st.assume(t)
		}
	}
	// failure paths
	var anyFail []*Term
	for _, f := range c.Fails {
		cond := env.termBool(f.Expr)
		anyFail = append(anyFail, cond)
		if cond.IsFalse() {
			continue
		}
		for _, k := range f.Kinds {
			ps := st.clone()
			ps.assume(cond)
			ex.doPanic(ps, &PanicInfo{Kind: k})
		}
	}
	for _, k := range c.Env {
		ps := st.clone()
		ex.doPanic(ps, &PanicInfo{Kind: k, Env: true})
	}
	if len(c.Fails) == 0 && !c.NoFail && len(c.Env) == 0 && !c.Pure && !c.Assumed {
		// a verified callee without any failure clause is verified as "nofail"
	}
	st.assume(Not(Or(anyFail...)))
	// modifies: havoc
	for _, m := range c.Modifies {
		if ex.usesHeapRefs && !strings.HasPrefix(strings.TrimSpace(m.Src), "ghost(") {
			// the functions of heap references (fields, abstraction functions) are state-independent symbols: only
			// sound while nothing modelled through them changes
			ex.reject("a function over the read-only heap (heapobj) calls %s, whose contract modifies %s", short, m.Src)
		}
		env.havoc(m.Expr)
	}
	if c.Arith {
		st.Ghost["opmeter"] = st.Ghost["metered"]
		st.Ghost["opseen"] = IntC(1)
	} else if !c.Assumed && (callee == nil || ex.mayArith(callee, 0)) {
		// a verified callee that may itself run such an operation, and whose contract does not say: either it ran
		// none (both unchanged), or the latest one ran at some moment of the call. A callee that does not declare
		// modifies ghost("metered") is proved not to meter (frame.ghost.metered), so that moment's meter value is the
		// current one; otherwise it is unknown.
		if !declaresGhost(c, "opseen") && !declaresGhost(c, "opmeter") {
			ran := ex.fresh("oprun", BoolSort)
			at := st.Ghost["metered"]
			if declaresGhost(c, "metered") {
				at = ex.fresh("gh_opmeter", st.Ghost["opmeter"].S)
			}
			st.Ghost["opmeter"] = Ite(ran, at, st.Ghost["opmeter"])
			st.Ghost["opseen"] = Ite(ran, IntC(1), st.Ghost["opseen"])
		} else {
			for _, gn := range []string{"opseen", "opmeter"} {
				if !declaresGhost(c, gn) {
					st.Ghost[gn] = ex.fresh("gh_"+gn, st.Ghost[gn].S)
				}
			}
		}
	}
	// results
	var rets []Val
	for i := 0; i < results.Len(); i++ {
		save := ex.Inputs
		ex.resultMode = true
		rv := ex.symVal(st, fmt.Sprintf("r%d_%s_%d", i, short, ex.nfreshNext()), results.At(i).Type(), 1)
		ex.resultMode = false
		ex.Inputs = save
		if ek := c.Options["errorkind"]; ek != "" {
			if iv, ok := rv.(IfaceV); ok && iv.Sym != nil {
				iv.Sym.PanicKind = ek
			}
		}
		if rk := c.Options["resultkind"]; rk != "" && i == 0 {
			// `option resultkind=*pkg.T` (assumed contracts): the dynamic type of the interface value returned, where a
			// spec expression cannot name it (pointer types)
			if iv, ok := rv.(IfaceV); ok && iv.Sym != nil {
				if kt := ex.P.LookupType(rk, tpkg); kt != nil {
					st.assume(Eq(iv.Kind, IntC(int64(ex.P.TypeTag(kt)))))
				} else {
					ex.reject("option resultkind=%s: unknown type", rk)
				}
			}
		}
		rets = append(rets, rv)
		nm := "result"
		if results.Len() > 1 {
			nm = fmt.Sprintf("result%d", i)
		}
		vars[nm] = rv
		if i < len(c.Results) {
			vars[c.Results[i]] = rv
		} else if n := results.At(i).Name(); n != "" && n != "_" {
			if _, clash := vars[n]; !clash {
				vars[n] = rv
			}
		}
	}
	if results.Len() == 1 {
		vars["result0"] = rets[0]
	}
	env.bindLets(c, true)
	// definitional postconditions `result.F == E` (E not mentioning the result) of a struct-valued result: the field
	// IS E rather than a fresh symbol constrained to equal it - the same meaning, but later operations on the field
	// (constant folding, case distinctions over constants) see the term
	if results.Len() == 1 {
		if sv, isStruct := rets[0].(StructV); isStruct {
			changed := false
			for _, e := range c.Ensures {
				for _, cj := range splitConj(e.Expr) {
					be, ok := cj.(*ast.BinaryExpr)
					if !ok || be.Op != token.EQL {
						continue
					}
					sel, ok := be.X.(*ast.SelectorExpr)
					if !ok {
						continue
					}
					if id, ok := sel.X.(*ast.Ident); !ok || id.Name != "result" || mentionsIdent(be.Y, "result") || mentionsIdent(be.Y, "result0") {
						continue
					}
					stt, ok := sv.Typ.Underlying().(*types.Struct)
					if !ok {
						continue
					}
					for fi := 0; fi < stt.NumFields(); fi++ {
						old, isScalar := sv.F[fi].(Scalar)
						if stt.Field(fi).Name() != sel.Sel.Name || !isScalar {
							continue
						}
						rv, _ := env.eval(be.Y)
						if u, isU := rv.(UConst); isU {
							rv = Scalar{ex.intConst(u.V, stt.Field(fi).Type())}
						}
						if rs, ok := rv.(Scalar); ok && rs.T.S.Eq(old.T.S) {
							nf := append([]Val{}, sv.F...)
							nf[fi] = rs
							sv = StructV{Typ: sv.Typ, F: nf}
							changed = true
						}
					}
				}
			}
			if changed {
				rets[0] = sv
				for k, v := range vars {
					if _, same := v.(StructV); same && (k == "result" || k == "result0" || (len(c.Results) > 0 && k == c.Results[0])) {
						vars[k] = sv
					}
				}
			}
		}
	}
	for _, e := range c.Ensures {
		st.assume(env.termBool(e.Expr))
	}
	for _, e := range c.TrustEnsures {
		st.assume(env.termBool(e.Expr))
		ex.UsedAssumed["trusted postcondition of "+key+": "+e.Src] = true
	}
	if x != nil {
		ex.bindResult(fr, x, rets)
	}
	// remember the call (for called/callarg/callres in the postconditions of the function under verification)
	if st.Calls == nil {
		st.Calls = map[string]*callRecord{}
	}
	st.Calls[site] = &callRecord{Args: args, Rets: rets}
	return false
}

func (ex *Exec) nfreshNext() int {
	ex.nfresh++
	return ex.nfresh
}

func (ex *Exec) frameShort(fr *Frame) string {
	fn := fr.Fn
	if fn.Parent() != nil {
		return fn.Parent().Name() + "." + fn.Name()
	}
	return fn.Name()
}

func (ex *Exec) callOrdinal(fr *Frame, x *ssa.Call) int {
	if x == nil {
		return 0
	}
	ord := 0
	for _, b := range fr.Fn.Blocks {
		for _, i := range b.Instrs {
			if c, ok := i.(*ssa.Call); ok {
				if sameCallee(c, x) {
					ord++
				}
				if c == x {
					return ord
				}
			}
		}
	}
	return ord
}

func sameCallee(a, b *ssa.Call) bool {
	ca, cb := a.Common(), b.Common()
	if ca.IsInvoke() != cb.IsInvoke() {
		return false
	}
	if ca.IsInvoke() {
		return ca.Method.Name() == cb.Method.Name()
	}
	fa, fb := ca.StaticCallee(), cb.StaticCallee()
	return fa != nil && fb != nil && funcKey(fa) == funcKey(fb)
}

func shortFn(key string) string {
	// (*math/big.Int).Add -> big.Int.Add ; github.com/onflow/cadence/common.UseMemory -> common.UseMemory
	s := key
	s = strings.ReplaceAll(s, "(*", "")
	s = strings.ReplaceAll(s, "(", "")
	s = strings.ReplaceAll(s, ")", "")
	if i := strings.LastIndex(s, "/"); i >= 0 {
		s = s[i+1:]
	}
	return s
}

// snapshot: cheap copy of the heap parts of the state (for old())
func (st *State) snapshot() *State {
	n := &State{Big: st.Big, PC: st.PC}
	n.Cells = make(map[*Cell]Val, len(st.Cells))
	for k, v := range st.Cells {
		n.Cells[k] = v
	}
	n.Mem = make(map[*Region]*Term, len(st.Mem))
	for k, v := range st.Mem {
		n.Mem[k] = v
	}
	n.Ghost = make(map[string]*Term, len(st.Ghost))
	for k, v := range st.Ghost {
		n.Ghost[k] = v
	}
	// map states are replaced, never mutated, on update: a shallow copy of the table keeps the old states
	n.Maps = make(map[*Cell]*MapState, len(st.Maps))
	for k, v := range st.Maps {
		n.Maps[k] = v
	}
	if st.Calls != nil {
		n.Calls = make(map[string]*callRecord, len(st.Calls))
		for k, v := range st.Calls {
			n.Calls[k] = v
		}
	}
	return n
}

// ---------- builtins ----------

func (ex *Exec) builtin(st *State, fr *Frame, x *ssa.Call, b *ssa.Builtin) bool {
	cc := x.Common()
	var args []Val
	for _, a := range cc.Args {
		args = append(args, ex.val(fr, a, st))
	}
	switch b.Name() {
	case "len":
		switch v := args[0].(type) {
		case SliceV:
			fr.Vals[x] = Scalar{v.Len}
		case StringV:
			fr.Vals[x] = Scalar{v.Len}
		case ArrayV:
			fr.Vals[x] = Scalar{ex.idxConst(v.Typ.Len())}
		case MapV:
			if ms, _, ok := ex.mapState(st, v, "len"); ok {
				fr.Vals[x] = Scalar{ms.Size}
			} else {
				fr.Vals[x] = Scalar{ex.idxConst(0)}
			}
		default:
			ex.reject("len of %s", valString(args[0]))
		}
	case "delete":
		ex.mapDelete(st, args[0], args[1])
	case "cap":
		switch v := args[0].(type) {
		case SliceV:
			fr.Vals[x] = Scalar{v.Cap}
		default:
			ex.reject("cap of %s", valString(args[0]))
		}
	case "append":
		fr.Vals[x] = ex.appendOp(st, fr, x, args)
	case "copy":
		fr.Vals[x] = ex.copyOp(st, fr, x, args)
	case "recover":
		if st.Panic != nil {
			pv := st.Panic.Val
			if pv == nil {
				pv = OpaqueV{Id: IntC(1)}
			}
			fr.Vals[x] = pv
			st.Panic = nil
		} else {
			fr.Vals[x] = IfaceV{Kind: IntC(0)}
		}
	case "min", "max":
		a, bb := args[0].(Scalar).T, args[1].(Scalar).T
		t := cc.Args[0].Type()
		_, signed, _ := intInfo(t)
		var lt *Term
		if ex.Mode == ModeBV {
			if signed {
				lt = BVCmp("bvslt", a, bb)
			} else {
				lt = BVCmp("bvult", a, bb)
			}
		} else {
			lt = ILt(a, bb)
		}
		if b.Name() == "min" {
			fr.Vals[x] = Scalar{Ite(lt, a, bb)}
		} else {
			fr.Vals[x] = Scalar{Ite(lt, bb, a)}
		}
	default:
		ex.reject("unsupported builtin %s", b.Name())
	}
	return false
}

// appendOp models append as always producing a fresh backing array whose contents equal the old
// slice followed by the appended elements (spare-capacity aliasing is not modelled; listed as an abstraction).
func (ex *Exec) appendOp(st *State, fr *Frame, x *ssa.Call, args []Val) Val {
	s := args[0].(SliceV)
	switch e := args[1].(type) {
	case SliceV:
		// append(s, e...) with e of known small constant length handled element-wise; otherwise a
		// fresh region with quantified description is needed: reject for now unless len is constant.
		if e.Region == nil {
			return s
		}
		if !e.Len.IsConst() {
			return ex.appendSym(st, s, e)
		}
		n := int(e.Len.Val.Int64())
		cur := s
		for i := 0; i < n; i++ {
			el := ex.regionLoad(st, e.Region, ex.idxAdd(e.Off, ex.idxConst(int64(i))), nil)
			cur = ex.append1(st, cur, el)
		}
		return cur
	}
	ex.reject("append with non-slice second arg")
	return nil
}

func (ex *Exec) append1(st *State, s SliceV, el Val) SliceV {
	r := ex.newRegion("append", s.Elem, -1)
	// contents of the new backing array: the old contents (a copy) plus the new element
	if s.Region == nil {
		ex.setRegionMem(st, r, func(t types.Type, suf string) *Term { return ex.zeroArray(t) })
	} else if len(r.Sub) > 0 && len(s.Region.Sub) == len(r.Sub) {
		for i := range r.Sub {
			st.Mem[r.Sub[i]] = st.Mem[s.Region.Sub[i]]
		}
		st.Mem[r] = st.Mem[s.Region]
	} else {
		st.Mem[r] = st.Mem[s.Region]
	}
	ex.regionStore(st, r, ex.idxAdd(s.Off, s.Len), nil, el)
	nl := ex.def("len", ex.idxAdd(s.Len, ex.idxConst(1)))
	nc := ex.fresh("cap", ex.idxSort())
	st.assume(And(ex.le(nl, nc), ex.le(nc, ex.maxLen())))
	return SliceV{Elem: s.Elem, Region: r, Off: s.Off, Len: nl, Cap: nc}
}

// appendSym: append(s, e...) for symbolic-length e: result region R' is described by a quantified fact.
func (ex *Exec) appendSym(st *State, s, e SliceV) Val {
	r := ex.newRegion("append", s.Elem, -1)
	arr := ex.fresh("appmem", ex.regionSort(s.Elem))
	st.Mem[r] = arr
	nl := ex.def("len", ex.idxAdd(s.Len, e.Len))
	nc := ex.fresh("cap", ex.idxSort())
	st.assume(And(ex.le(nl, nc), ex.le(nc, ex.maxLen())))
	// forall i. 0<=i<len(s) => R'[i] = S[off+i];  len(s)<=i<nl => R'[i] = E[eoff + i - len(s)]
	i := Sym("qi", ex.idxSort())
	var sOld *Term
	if s.Region != nil {
		sOld = Select(st.Mem[s.Region], ex.idxAdd(s.Off, i))
	} else {
		sOld = Select(ex.zeroArray(s.Elem), i)
	}
	body := And(
		Implies(And(ex.geZero(i), ex.lt(i, s.Len)), Eq(Select(arr, i), sOld)),
		Implies(And(ex.le(s.Len, i), ex.lt(i, nl)), Eq(Select(arr, i), Select(st.Mem[e.Region], ex.idxAdd(e.Off, ex.idxSub(i, s.Len))))),
	)
	st.assume(App(fmt.Sprintf("forall ((qi %s))", ex.idxSort()), BoolSort, body))
	return SliceV{Elem: s.Elem, Region: r, Off: ex.idxConst(0), Len: nl, Cap: nc}
}

func (ex *Exec) copyOp(st *State, fr *Frame, x *ssa.Call, args []Val) Val {
	dst := args[0].(SliceV)
	src, ok := args[1].(SliceV)
	if !ok {
		ex.reject("copy from non-slice")
	}
	var n *Term
	if ex.Mode == ModeBV {
		n = Ite(BVCmp("bvslt", dst.Len, src.Len), dst.Len, src.Len)
	} else {
		n = Ite(ILt(dst.Len, src.Len), dst.Len, src.Len)
	}
	n = ex.def("ncopy", n)
	if dst.Region == nil || src.Region == nil {
		return Scalar{ex.idxConst(0)}
	}
	oldD := st.Mem[dst.Region]
	oldS := st.Mem[src.Region]
	if dst.Region.FixedLen >= 0 && dst.Region.FixedLen <= 64 {
		// small fixed-size destination: one conditional store per position (quantifier-free, exact memmove)
		cur := oldD
		for p := int64(0); p < dst.Region.FixedLen; p++ {
			pos := ex.idxConst(p)
			inR := And(ex.le(dst.Off, pos), ex.lt(pos, ex.idxAdd(dst.Off, n)))
			val := Ite(inR, Select(oldS, ex.idxAdd(src.Off, ex.idxSub(pos, dst.Off))), Select(oldD, pos))
			cur = Store(cur, pos, val)
		}
		st.Mem[dst.Region] = ex.def("copymem", cur)
		return Scalar{n}
	}
	// new contents of dst region: quantified description (memmove semantics: reads the old contents)
	arr := ex.fresh("copymem", oldD.S)
	i := Sym("qi", ex.idxSort())
	inR := And(ex.le(dst.Off, i), ex.lt(i, ex.idxAdd(dst.Off, n)))
	body := Eq(Select(arr, i), Ite(inR, Select(oldS, ex.idxAdd(src.Off, ex.idxSub(i, dst.Off))), Select(oldD, i)))
	st.assume(App(fmt.Sprintf("forall ((qi %s))", ex.idxSort()), BoolSort, body))
	st.Mem[dst.Region] = arr
	return Scalar{n}
}

// splitConj: the top-level conjuncts of a spec expression
func splitConj(e ast.Expr) []ast.Expr {
	switch x := e.(type) {
	case *ast.ParenExpr:
		return splitConj(x.X)
	case *ast.BinaryExpr:
		if x.Op == token.LAND {
			return append(splitConj(x.X), splitConj(x.Y)...)
		}
	}
	return []ast.Expr{e}
}

func mentionsIdent(e ast.Expr, name string) bool {
	found := false
	ast.Inspect(e, func(n ast.Node) bool {
		if id, ok := n.(*ast.Ident); ok && id.Name == name {
			found = true
		}
		return !found
	})
	return found
}
