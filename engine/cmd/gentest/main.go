package main

import (
	"fmt"
	"go/types"
	"os"

	"golang.org/x/tools/go/packages"
	"golang.org/x/tools/go/ssa"
	"golang.org/x/tools/go/ssa/ssautil"
)

func main() {
	cfg := &packages.Config{Mode: packages.LoadAllSyntax, Dir: "/repo", BuildFlags: []string{"-tags=verif"},
		Env: append(os.Environ(), "GOFLAGS=-mod=mod", "GOPROXY=off")}
	pkgs, err := packages.Load(cfg, os.Args[1])
	if err != nil {
		panic(err)
	}
	prog, spkgs := ssautil.AllPackages(pkgs, ssa.InstantiateGenerics)
	prog.Build()
	for _, p := range spkgs {
		if p == nil {
			continue
		}
		sc := p.Pkg.Scope()
		for _, n := range sc.Names() {
			tn, ok := sc.Lookup(n).(*types.TypeName)
			if !ok {
				continue
			}
			named, ok := tn.Type().(*types.Named)
			if !ok {
				continue
			}
			for i := 0; i < named.NumMethods(); i++ {
				m := named.Method(i)
				fn := prog.FuncValue(m)
				if fn == nil {
					fmt.Println("nil fn for", m)
					continue
				}
				fmt.Printf("%s blocks=%d typeparams=%d\n", fn.String(), len(fn.Blocks), fn.TypeParams().Len())
				if m.Name() == "Insert" {
					fn.WriteTo(os.Stdout)
				}
			}
		}
	}
}
