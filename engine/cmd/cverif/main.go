package main

import (
	"os"

	"verif/engine"
)

func main() {
	os.Exit(engine.Main(os.Args[1:]))
}
