package main

import (
	"fmt"
	"os"
	"strings"

	"golang.org/x/tools/go/packages"
	"golang.org/x/tools/go/ssa"
	"golang.org/x/tools/go/ssa/ssautil"
)

func main() {
	cfg := &packages.Config{Mode: packages.LoadAllSyntax, Dir: "/repo", BuildFlags: []string{"-tags=verif"},
		Env: append(os.Environ(), "GOFLAGS=-mod=mod", "GOPROXY=off")}
	pkgs, err := packages.Load(cfg, os.Args[1])
	if err != nil {
		panic(err)
	}
	prog, spkgs := ssautil.AllPackages(pkgs, ssa.InstantiateGenerics)
	prog.Build()
	for _, p := range spkgs {
		if p == nil {
			continue
		}
		for _, want := range os.Args[2:] {
			for fn := range ssautil.AllFunctions(prog) {
				if fn.Pkg == p && strings.Contains(fn.String(), want) {
					fn.WriteTo(os.Stdout)
					fmt.Println()
				}
			}
		}
	}
}
