package engine

import (
	"fmt"
	"go/types"
	"sort"
	"strings"
)

// mvalOf: mval(x) = the integer part (truncated toward zero) of the numeric value x.
// Symbolic interface values carry it as a ghost attribute that is tied to every concrete payload the
// execution looks into (kind == T ==> ghost == typeint_T(payload)).
func (ev *SpecEnv) mvalOf(v Val, t types.Type) *Term {
	switch x := v.(type) {
	case IfaceV:
		if x.Conc != nil {
			return ev.mvalOf(x.Payload, x.Conc)
		}
		if x.Sym == nil {
			return IntC(0)
		}
		return ev.ex.ifaceGhost(ev.st, x, "mval")
	case Scalar:
		if tt := ev.ex.typeIntTerm(ev.st, v, t); tt != nil {
			return tt
		}
		return x.T
	case StructV:
		if tt := ev.ex.typeIntTerm(ev.st, v, x.Typ); tt != nil {
			return tt
		}
	}
	ev.fail("mval() of %s", valString(v))
	return nil
}

// typeIntTerm evaluates the typeint (or typenum) clause of t on v; nil when t has none.
func (ex *Exec) typeIntTerm(st *State, v Val, t types.Type) *Term {
	if t == nil {
		return nil
	}
	ts := ex.P.CS.Types[typeKey(t)]
	if ts == nil {
		return nil
	}
	cl := ts.Int
	if cl == nil {
		cl = ts.Num
	}
	if cl == nil {
		return nil
	}
	sub := &SpecEnv{ex: ex, st: st, vars: map[string]Val{"self": v}, vtypes: map[string]types.Type{"self": t}}
	if n, ok := t.(*types.Named); ok && n.Obj().Pkg() != nil {
		sub.pkg = n.Obj().Pkg()
	}
	r, _ := sub.eval(cl.Expr)
	return sub.scalar(r, cl.Expr)
}

// typeAttrTerm evaluates the typeattr `name` of type t (self = payload, which may be nil for attributes that do not
// depend on the value); nil when the type declares no such attribute or it cannot be evaluated without a value.
func (ex *Exec) typeAttrTerm(st *State, payload Val, t types.Type, name string) (res *Term) {
	if t == nil {
		return nil
	}
	ts := ex.P.CS.Types[typeKey(t)]
	if ts == nil || ts.Attrs == nil || ts.Attrs[name] == nil {
		return nil
	}
	defer func() {
		if r := recover(); r != nil {
			if _, isReject := r.(rejectErr); isReject {
				res = nil
				return
			}
			panic(r)
		}
	}()
	sub := &SpecEnv{ex: ex, st: st, vars: map[string]Val{}, vtypes: map[string]types.Type{}}
	if payload != nil {
		sub.vars["self"] = payload
		sub.vtypes["self"] = t
	}
	if n, ok := t.(*types.Named); ok && n.Obj().Pkg() != nil {
		sub.pkg = n.Obj().Pkg()
	}
	r, _ := sub.eval(ts.Attrs[name].Expr)
	return sub.scalar(r, ts.Attrs[name].Expr)
}

func (ex *Exec) ifaceGhost(st *State, iv IfaceV, name string) *Term {
	if g, ok := iv.Sym.Ghosts[name]; ok {
		return g
	}
	g := ex.declInput(iv.Sym.Name+"!"+name, IntSort)
	iv.Sym.Ghosts[name] = g
	if name != "mval" {
		// attributes declared per type (typeattr): kind(x) == T ==> ghost == the type's value (constant attributes only)
		var tnames []string
		for tn, ts := range ex.P.CS.Types {
			if ts.Attrs != nil && ts.Attrs[name] != nil {
				tnames = append(tnames, tn)
			}
		}
		sort.Strings(tnames)
		for _, tn := range tnames {
			t := ex.P.LookupType(tn, nil)
			if t == nil {
				continue
			}
			var pl Val
			if ts := ex.P.CS.Types[tn]; ts != nil && ts.Attrs[name] != nil && strings.Contains(ts.Attrs[name].Src, "self") {
				// an attribute computed from the value (PrimitiveStaticType: the kind it denotes): evaluated on the
				// interface value's payload of that type
				pl = ex.payload(st, iv, t)
			}
			if at := ex.typeAttrTerm(st, pl, t, name); at != nil {
				ex.Assumes = append(ex.Assumes, Implies(Eq(iv.Kind, IntC(int64(ex.P.TypeTag(t)))), Eq(g, at)))
			}
		}
		return g
	}
	// tie to payloads created so far
	var keys []string
	for k := range iv.Sym.Payloads {
		keys = append(keys, k)
	}
	sort.Strings(keys)
	for _, k := range keys {
		if t := ex.P.LookupType(k, nil); t != nil {
			ex.linkGhost(st, iv, t, iv.Sym.Payloads[k])
		}
	}
	return g
}

// linkGhost: kind(x) == T ==> mval ghost == typeint_T(payload)
func (ex *Exec) linkGhost(st *State, iv IfaceV, t types.Type, payload Val) {
	g, ok := iv.Sym.Ghosts["mval"]
	if !ok {
		return
	}
	tt := ex.typeIntTerm(st, payload, t)
	if tt == nil {
		if s, isS := payload.(Scalar); isS && s.T.S.K == SInt {
			tt = s.T
		} else {
			return
		}
	}
	ex.Assumes = append(ex.Assumes, Implies(Eq(iv.Kind, IntC(int64(ex.P.TypeTag(t)))), Eq(g, tt)))
}

// implementsTerm: the dynamic type of x is one of the loaded concrete types implementing iface
func (ex *Exec) implementsTerm(iv IfaceV, iface types.Type) *Term {
	it, ok := iface.Underlying().(*types.Interface)
	if !ok {
		return False
	}
	if iv.Conc != nil {
		return BoolC(types.Implements(iv.Conc, it))
	}
	if iv.Sym == nil {
		return False
	}
	var alts []*Term
	for _, t := range ex.P.Implementors(iface) {
		alts = append(alts, Eq(iv.Kind, IntC(int64(ex.P.TypeTag(t)))))
	}
	return Or(alts...)
}

// ExpandIfaceContracts instantiates every interface contract marked `option expand=true` as the contract
// of each concrete implementor's method (unless that method has a contract of its own): the method is then
// verified against the interface contract, with `self` naming its receiver. Callers that only know the
// interface rely on exactly the text every implementor was proved against.
func (cs *ContractSet) ExpandIfaceContracts(p *Program) []string {
	var added []string
	for _, k := range append([]string{}, cs.Order...) {
		c := cs.Funcs[k]
		if !c.Iface || c.Options["expand"] != "true" {
			continue
		}
		i := strings.LastIndex(k, ".")
		it := p.LookupType(k[:i], nil)
		if it == nil {
			continue
		}
		mname := k[i+1:]
		// option expandfor=I: only implementors that also implement interface I (e.g. IntegerValue)
		var onlyFor *types.Interface
		if ef := c.Options["expandfor"]; ef != "" {
			pk := k[:i]
			if j := strings.LastIndex(pk, "."); j >= 0 {
				pk = pk[:j]
			}
			if ft := p.LookupType(pk+"."+ef, nil); ft != nil {
				onlyFor, _ = ft.Underlying().(*types.Interface)
			}
		}
		ifaceShort := k[:i]
		if j := strings.LastIndex(ifaceShort, "."); j >= 0 {
			ifaceShort = ifaceShort[j+1:]
		}
		for _, t := range p.Implementors(it) {
			if onlyFor != nil && !types.Implements(t, onlyFor) {
				continue
			}
			if _, isPtr := t.(*types.Pointer); isPtr {
				// value types implementing the interface are handled through T (method sets of *T include T's)
				if _, ok := t.(*types.Pointer).Elem().Underlying().(*types.Interface); ok {
					continue
				}
				if types.Implements(t.(*types.Pointer).Elem(), it.Underlying().(*types.Interface)) {
					continue
				}
			}
			sel := p.Prog.MethodSets.MethodSet(t).Lookup(nil, mname)
			if sel == nil {
				for j := 0; j < p.Prog.MethodSets.MethodSet(t).Len(); j++ {
					if s := p.Prog.MethodSets.MethodSet(t).At(j); s.Obj().Name() == mname {
						sel = s
					}
				}
			}
			if sel == nil {
				continue
			}
			fn := p.Prog.MethodValue(sel)
			if fn == nil || fn.Blocks == nil || fn.Synthetic != "" {
				continue
			}
			key := fn.String()
			if _, have := cs.Funcs[key]; have {
				// the method has a contract of its own: with `option refine=true` its body is verified a second
				// time, against the interface contract, under the key "<method>@<Interface>" (so that what generic
				// callers assume of an unknown implementor is proved of every implementor)
				if c.Options["refine"] != "true" {
					continue
				}
				key += "@" + ifaceShort
				if _, have2 := cs.Funcs[key]; have2 {
					continue
				}
			}
			nc := *c
			nc.Key = key
			nc.Base = fn.String()
			nc.Iface = false
			nc.Assumed = false
			nc.Options = map[string]string{}
			for ok, ov := range c.Options {
				nc.Options[ok] = ov
			}
			nc.Options["self"] = "recv"
			nc.Schema = "iface " + k
			nc.Loops = map[int]*LoopSpec{}
			cs.Funcs[key] = &nc
			cs.Order = append(cs.Order, key)
			added = append(added, key)
		}
	}
	_ = fmt.Sprint
	return added
}
