package engine

import (
	"fmt"
	"go/ast"
	"go/types"
	"math/big"
	"runtime/debug"
	"sort"
	"strconv"
	"time"
	"strings"

	"golang.org/x/tools/go/ssa"
)

// Obligation is one proof obligation with its query and the expected answer.
type Obligation struct {
	Func     string
	Name     string // full name: <func>#<name>
	Short    string
	Tags     []string
	Expect   string // "unsat" (proof) or "sat" (vacuity probe / cover)
	Query    *Query
	Mode     string
	Inputs   []string
	Clause   string // source of the clause
	Bounded  string
	Probe    bool // vacuity probe (expected sat), not counted as proof obligation
	Refine   []*Term
	Small    []*Term // "prefer a small counterexample" constraints (slice lengths within the replay window)
	Contract *Contract
	Order    []string // solver order override (lemmas: cvc5 first)
	MinTimeout time.Duration // option timeout=N of the contract
}

type FuncResult struct {
	Key         string
	Contract    *Contract
	Obligations []*Obligation
	Rejected    string
	Inlined     []string
	UsedAssumed []string
	UsedVerified []string
	NInstr      int
	Paths       int
	Exec        *Exec
	ParamNames  []string
}

func modeOf(c *Contract) Mode {
	if c.Mode == "bv" {
		return ModeBV
	}
	return ModeInt
}

func (p *Program) FindFunc(key string) *ssa.Function {
	if at := strings.Index(key, "@"); at >= 0 {
		key = key[:at] // instance contract "f@label" is about f
	}
	if fn, ok := p.Funcs[key]; ok {
		return fn
	}
	if i := strings.Index(key, ".table:"); i >= 0 {
		// `func table:Var[key].Field`: the function literal stored in a dispatch table entry by the real package
		// initialiser (anonymous functions have no stable name): found by the source position the running program reports
		v, ok := p.Consts[key[:i]+"."+key[i+len(".table:"):]]
		if !ok || !strings.HasPrefix(v, "func:") {
			return nil
		}
		at := strings.LastIndex(v, "@")
		if at < 0 {
			return nil
		}
		if fn, ok := p.Funcs[strings.TrimPrefix(v[:at], "func:")]; ok {
			return fn // the entry holds a named function
		}
		pos := v[at+1:] // file:line
		for _, fn := range p.Funcs {
			if fn.Pos().IsValid() {
				ps := p.Prog.Fset.Position(fn.Pos())
				if fmt.Sprintf("%s:%d", ps.Filename, ps.Line) == pos && fn.Parent() != nil {
					return fn
				}
			}
		}
	}
	return nil
}

func hasTag(tags []string, prop string) bool {
	if len(tags) == 0 {
		return true
	}
	for _, t := range tags {
		if t == prop {
			return true
		}
	}
	return false
}

// VerifyFunc generates all obligations for one function under contract.
func (p *Program) VerifyFunc(c *Contract) (res *FuncResult) {
	res = &FuncResult{Key: c.Key, Contract: c}
	if c.Theorem != nil {
		return p.verifyTheorem(c)
	}
	fn := p.FindFunc(c.Key)
	if fn == nil {
		res.Rejected = "function not found in SSA program: " + c.Key
		return
	}
	if fn.Blocks == nil {
		res.Rejected = "function has no body: " + c.Key
		return
	}
	for _, b := range fn.Blocks {
		res.NInstr += len(b.Instrs)
	}
	ex := &Exec{P: p, Mode: modeOf(c), Fn: fn, C: c, Funs: map[string]string{}, MaxStep: 400000,
		siteCnt: map[string]int{}, Inlined: map[string]bool{}, UsedContracts: map[string]bool{}, UsedAssumed: map[string]bool{}}
	res.Exec = ex
	CurDefs = map[string]*Term{}
	SymRanges = map[string][2]*big.Int{}
	ex.SymRangesMap = SymRanges
	ArrayPrefix = map[string]arrayPrefix{}
	ex.ArrayPrefixMap = ArrayPrefix
	BaseLowerBound = map[string]*Term{}
	ex.BaseLowerBoundMap = BaseLowerBound
	if c.Options["nlmul"] == "uf" {
		NLMulUF = true
		NLMulComm = nil
		NLMulExact = nil
		nlSeen = map[string]bool{}
		ex.Funs["0uf_umul"] = "(declare-fun umul (Int Int) Int)"
		defer func() { NLMulUF = false }()
	}
	defer func() {
		if r := recover(); r != nil {
			if re, ok := r.(rejectErr); ok {
				res.Rejected = re.msg
				return
			}
			res.Rejected = fmt.Sprintf("internal error: %v\n%s", r, debug.Stack())
		}
	}()
	st := &State{Cells: map[*Cell]Val{}, Mem: map[*Region]*Term{}, Maps: map[*Cell]*MapState{}, Ghost: map[string]*Term{}}
	st.Big = Sym("heap0", ArraySort(IntSort, IntSort))
	ex.initGhosts(st, c)
	var args []Val
	vars := map[string]Val{}
	vtypes := map[string]types.Type{}
	for _, prm := range fn.Params {
		nm := prm.Name()
		if nm == "" || nm == "_" {
			nm = fmt.Sprintf("arg%d", len(args))
		}
		v := ex.symVal(st, "in_"+nm, prm.Type(), 0)
		args = append(args, v)
		vars[nm] = v
		vtypes[nm] = prm.Type()
		res.ParamNames = append(res.ParamNames, nm)
	}
	if c.Options["self"] == "recv" && len(args) > 0 {
		vars["self"] = args[0]
		vtypes["self"] = fn.Params[0].Type()
	}
	for _, g := range c.Ghosts {
		if g[1] == "mathint" {
			// a ghost ranging over the mathematical integers
			vars[g[0]] = Scalar{ex.declInput("gh_"+g[0], IntSort)}
			continue
		}
		gt := basicTypeByName(g[1])
		if gt == nil {
			res.Rejected = "ghost " + g[0] + ": unsupported type " + g[1]
			return
		}
		gv := ex.symVal(st, "gh_"+g[0], gt, 0)
		vars[g[0]] = gv
		vtypes[g[0]] = gt
	}
	var bind []Val
	for _, fv := range fn.FreeVars {
		bv := ex.symVal(st, "fv_"+fv.Name(), fv.Type(), 0)
		bind = append(bind, bv)
		// a closure's captured variables are readable in its contract by their source names (entry values)
		if _, clash := vars[fv.Name()]; !clash {
			if pv, isPtr := bv.(PtrV); isPtr && pv.K == PCell {
				if pt, ok := fv.Type().Underlying().(*types.Pointer); ok {
					if cv, have := st.Cells[pv.Cell]; have && len(pv.Path) == 0 {
						vars[fv.Name()] = cv
						vtypes[fv.Name()] = pt.Elem()
					}
				}
			} else {
				vars[fv.Name()] = bv
				vtypes[fv.Name()] = fv.Type()
			}
		}
	}
	// instance contracts: parameters bound to concrete values (bind p = expr)
	for _, b := range c.Binds {
		idx := -1
		for i, nm := range res.ParamNames {
			if nm == b.Name {
				idx = i
			}
		}
		if idx < 0 {
			res.Rejected = "bind: no parameter named " + b.Name
			return
		}
		benv := &SpecEnv{ex: ex, st: st, vars: vars, vtypes: vtypes, pkg: fn.Pkg.Pkg, contract: c}
		bv, bt := benv.eval(b.Expr)
		if u, isU := bv.(UConst); isU {
			// an integer literal bound to an integer parameter
			if _, _, isInt := intInfo(fn.Params[idx].Type()); !isInt {
				res.Rejected = "bind: integer literal for non-integer parameter " + b.Name
				return
			}
			bv, bt = Scalar{ex.intConst(u.V, fn.Params[idx].Type())}, fn.Params[idx].Type()
		}
		bv = ex.boxIfNeeded(bv, bt, fn.Params[idx].Type())
		args[idx] = bv
		vars[b.Name] = bv
	}
	entry := st.snapshot()
	ex.Entry = entry
	ex.ParamVals = vars
	env := &SpecEnv{ex: ex, st: entry, vars: vars, vtypes: vtypes, pkg: fn.Pkg.Pkg, contract: c}
	env.bindLets(c, false)
	var pre []*Term
	for _, r := range c.Requires {
		pre = append(pre, env.termBool(r.Expr))
	}
	preT := And(pre...)
	st.assume(preT)
	for _, a := range c.Assume {
		st.assume(env.termBool(a.Expr))
	}
	ex.pushFrame(st, fn, bind, args, nil, 0)
	ex.Run(st)
	res.Paths = len(ex.Exits)
	for k := range ex.Inlined {
		res.Inlined = append(res.Inlined, k)
	}
	for k := range ex.UsedAssumed {
		res.UsedAssumed = append(res.UsedAssumed, k)
	}
	for k := range ex.UsedContracts {
		res.UsedVerified = append(res.UsedVerified, k)
	}
	sort.Strings(res.Inlined)
	sort.Strings(res.UsedAssumed)
	sort.Strings(res.UsedVerified)

	// constraints that make a counterexample small enough to replay
	var small []*Term
	for _, nm := range res.ParamNames {
		switch v := vars[nm].(type) {
		case SliceV:
			if v.Region != nil {
				small = append(small, ex.le(v.Len, ex.idxConst(68)))
			}
		case Scalar:
			if v.T.S.K == SBV && v.T.S.W == 64 {
				small = append(small, BVCmp("bvsle", v.T, BVC(big.NewInt(1<<20), 64)), BVCmp("bvsge", v.T, BVC(big.NewInt(-(1<<20)), 64)))
			}
		}
	}
	mk := func(name string, tags []string, expect string, clause string, asserts ...*Term) *Obligation {
		q := &Query{Defs: ex.Defs, GetVals: ex.Inputs}
		var fnames []string
		for n := range ex.Funs {
			fnames = append(fnames, n)
		}
		sort.Strings(fnames)
		for _, n := range fnames {
			q.Funs = append(q.Funs, ex.Funs[n])
		}
		q.Asserts = append(q.Asserts, ex.Assumes...)
		q.Asserts = append(q.Asserts, ex.Axioms...)
		if NLMulUF {
			q.Asserts = append(q.Asserts, NLMulComm...)
		}
		q.Asserts = append(q.Asserts, asserts...)
		if ex.Mode == ModeBV && len(ex.Funs) == 0 {
			// quantifier-free bit-vector/array goals: naming the logic lets the solvers pick their bit-blasting tactics
			qf := true
			for _, a := range q.Asserts {
				if strings.Contains(a.String(), "forall") || strings.Contains(a.String(), "exists") {
					qf = false
					break
				}
			}
			if qf {
				intUsed := false
				for _, a := range q.Asserts {
					m := map[string]Sort{}
					CollectSyms(a, m)
					for _, srt := range m {
						if srt.K == SInt {
							intUsed = true
						}
					}
				}
				if !intUsed {
					q.Logic = "QF_AUFBV"
				}
			}
		}
		o := &Obligation{Func: c.Key, Short: name, Name: c.Key + "#" + name, Tags: tags, Expect: expect, Query: q,
			Mode: c.Mode, Inputs: ex.Inputs, Clause: clause, Bounded: c.Bounded, Contract: c, Refine: ex.Refine, Small: small}
		if NLMulUF {
			o.Refine = append(append([]*Term{}, ex.Refine...), NLMulExact...)
		}
		if o.Mode == "" {
			o.Mode = "int"
		}
		if s := c.Options["solvers"]; s != "" {
			// solver order for this function's obligations (e.g. cvc5 first for div/mod decompositions)
			o.Order = strings.Split(s, ",")
		}
		if s := c.Options["timeout"]; s != "" {
			// `option timeout=N`: these obligations get at least N seconds also in the quick tier (measured well below
			// N on an idle machine; the margin is for a loaded one)
			if n, err := strconv.Atoi(s); err == nil && n > 0 {
				o.MinTimeout = time.Duration(n) * time.Second
			}
		}
		res.Obligations = append(res.Obligations, o)
		return o
	}
	allTags := func() []string { return nil }

	// 1. pre.sat
	o := mk("pre.sat", allTags(), "sat", "requires satisfiable", preT)
	o.Probe = true

	// 1b. lemmas instantiated by this contract: the universal closure over the integers is proved on its own
	// (no assumptions of the contract take part)
	{
		var lnames []string
		for n, sf := range p.CS.SpecFuns {
			if !sf.Lemma {
				continue
			}
			used := false
			for _, a := range append(append([]Clause{}, c.Assume...), c.AssumePost...) {
				if strings.Contains(a.Src, n+"(") {
					used = true
				}
			}
			if used {
				lnames = append(lnames, n)
			}
		}
		sort.Strings(lnames)
		for _, n := range lnames {
			sf := p.CS.SpecFuns[n]
			lv := map[string]Val{}
			lt := map[string]types.Type{}
			var syms []string
			var hyps []*Term
			for pi, prm := range sf.Params {
				nm := "lm_" + n + "_" + prm
				syms = append(syms, nm)
				if pi < len(sf.PTypes) && sf.PTypes[pi] != "" {
					// typed parameter: ranges over all values of that machine type
					if gt := basicTypeByName(sf.PTypes[pi]); gt != nil {
						x := Sym(nm, ex.intSort(gt))
						lv[prm] = Scalar{x}
						lt[prm] = gt
						if ex.Mode != ModeBV {
							// Int encoding: the quantification is over the type's range
							hyps = append(hyps, ex.rangeFact(x, gt))
						}
						continue
					}
				}
				lv[prm] = Scalar{Sym(nm, IntSort)}
				lt[prm] = types.Typ[types.UntypedInt]
			}
			lenv := &SpecEnv{ex: ex, st: entry, vars: lv, vtypes: lt, pkg: fn.Pkg.Pkg, contract: c}
			body := lenv.termBool(sf.Expr)
			q := &Query{GetVals: syms, Logic: "ALL"}
			var fnames []string
			for fnn := range ex.Funs {
				fnames = append(fnames, fnn)
			}
			sort.Strings(fnames)
			for _, fnn := range fnames {
				q.Funs = append(q.Funs, ex.Funs[fnn])
			}
			q.Asserts = append(append([]*Term{}, hyps...), Not(body))
			lo := &Obligation{Func: c.Key, Short: "lemma." + n, Name: c.Key + "#lemma." + n, Expect: "unsat", Query: q,
				Mode: modeName(c), Inputs: syms, Clause: "lemma " + n + "(" + strings.Join(sf.Params, ", ") + ") = " + sf.Src, Contract: c,
				Order: []string{"cvc5", "z3-new", "z3"}}
			res.Obligations = append(res.Obligations, lo)
		}
	}

	// 2. side obligations grouped by name
	groups := map[string][]SideObl{}
	var gorder []string
	for _, s := range ex.Side {
		if _, ok := groups[s.Name]; !ok {
			gorder = append(gorder, s.Name)
		}
		groups[s.Name] = append(groups[s.Name], s)
	}
	for _, n := range gorder {
		var alts []*Term
		for _, s := range groups[n] {
			alts = append(alts, And(append(append([]*Term{}, s.PC...), Not(s.Cond))...))
		}
		mk(n, allTags(), "unsat", n, Or(alts...))
	}

	// helpers over exits
	envAllowed := map[string]bool{}
	for _, k := range c.Env {
		envAllowed[k] = true
	}
	var normal, failing []*Exit
	for _, e := range ex.Exits {
		if e.Panic == nil {
			normal = append(normal, e)
		} else if envAllowed[e.Panic.Kind] {
			continue
		} else {
			failing = append(failing, e)
		}
	}
	pcOf := func(e *Exit) *Term { return And(e.PC...) }

	// 3. ensures
	for i, en := range c.Ensures {
		var alts []*Term
		for _, e := range normal {
			penv := ex.postEnv(env, e, fn)
			penv.bindLets(c, true)
			t := penv.termBool(en.Expr)
			var lem []*Term
			for _, a := range c.AssumePost {
				lem = append(lem, penv.termBool(a.Expr))
			}
			alts = append(alts, And(pcOf(e), And(lem...), Not(t)))
		}
		if en.Src == "true" {
			continue // schema slot left empty for this type
		}
		// vacuity probe for a conditional postcondition `A ==> B`: some normal exit satisfies A
		if ce, ok := en.Expr.(*ast.CallExpr); ok && exprString(ce.Fun) == "imp" && len(ce.Args) == 2 && len(normal) > 0 {
			var calts []*Term
			for _, e := range normal {
				penv := ex.postEnv(env, e, fn)
				penv.bindLets(c, true)
				calts = append(calts, And(pcOf(e), penv.termBool(ce.Args[0])))
			}
			po := mk(fmt.Sprintf("cover.post.%d", i+1), en.Tags, "sat", "the case of the postcondition is reachable: "+exprString(ce.Args[0]), Or(calts...))
			po.Probe = true
		}
		if len(c.CasesPost) > 0 {
			// casesplitpost E1 | E2 | ...: like casesplit, with the cases evaluated in the exit state (e.g. by the length
			// of the result); one obligation per case and one for "none of them"
			nc := len(c.CasesPost)
			perCase := make([][]*Term, nc+1)
			for _, e := range normal {
				penv := ex.postEnv(env, e, fn)
				penv.bindLets(c, true)
				t := penv.termBool(en.Expr)
				var lem []*Term
				for _, a := range c.AssumePost {
					lem = append(lem, penv.termBool(a.Expr))
				}
				var cts []*Term
				for k, cc := range c.CasesPost {
					ct := penv.termBool(cc.Expr)
					cts = append(cts, ct)
					perCase[k+1] = append(perCase[k+1], And(pcOf(e), And(lem...), ct, Not(t)))
				}
				perCase[0] = append(perCase[0], And(pcOf(e), And(lem...), Not(Or(cts...)), Not(t)))
			}
			for k := 1; k <= nc; k++ {
				mk(fmt.Sprintf("post.%d.c%d", i+1, k), en.Tags, "unsat", "ensures "+en.Src+" [case "+c.CasesPost[k-1].Src+"]", Or(perCase[k]...))
			}
			mk(fmt.Sprintf("post.%d.c0", i+1), en.Tags, "unsat", "ensures "+en.Src+" [no listed case]", Or(perCase[0]...))
			continue
		}
		if len(c.Cases) > 0 {
			var cs []*Term
			for _, cc := range c.Cases {
				cs = append(cs, env.termBool(cc.Expr))
			}
			groups := [][]*Term{alts}
			if n, err := strconv.Atoi(c.Options["split"]); err == nil && n > 0 && len(alts) > n {
				groups = nil
				for g := 0; g*n < len(alts); g++ {
					hi := (g + 1) * n
					if hi > len(alts) {
						hi = len(alts)
					}
					groups = append(groups, alts[g*n:hi])
				}
			}
			for gi, grp := range groups {
				gs := ""
				if len(groups) > 1 {
					gs = fmt.Sprintf(".g%d", gi+1)
				}
				for k, ct := range cs {
					mk(fmt.Sprintf("post.%d%s.c%d", i+1, gs, k+1), en.Tags, "unsat", "ensures "+en.Src+" [case "+c.Cases[k].Src+"]", ct, Or(grp...))
				}
				mk(fmt.Sprintf("post.%d%s.c0", i+1, gs), en.Tags, "unsat", "ensures "+en.Src+" [no listed case]", Not(Or(cs...)), Or(grp...))
			}
			continue
		}
		if n, err := strconv.Atoi(c.Options["split"]); err == nil && n > 0 && len(alts) > n {
			// option split=N: one obligation per group of N exit paths (keeps each query small)
			for g := 0; g*n < len(alts); g++ {
				hi := (g + 1) * n
				if hi > len(alts) {
					hi = len(alts)
				}
				mk(fmt.Sprintf("post.%d.g%d", i+1, g+1), en.Tags, "unsat", "ensures "+en.Src, Or(alts[g*n:hi]...))
			}
			continue
		}
		mk(fmt.Sprintf("post.%d", i+1), en.Tags, "unsat", "ensures "+en.Src, Or(alts...))
	}

	// 4. fails
	if len(c.Fails) > 0 || c.NoFail || true {
		var conds []*Term
		for _, f := range c.Fails {
			conds = append(conds, env.termBool(f.Expr))
		}
		anyC := Or(conds...)
		var tags []string
		seen := map[string]bool{}
		for _, f := range c.Fails {
			for _, t := range f.Tags {
				if !seen[t] {
					seen[t] = true
					tags = append(tags, t)
				}
			}
		}
		var srcs []string
		for _, f := range c.Fails {
			srcs = append(srcs, f.Src)
		}
		// fails.if: some fail condition holds but the function returns normally
		if len(c.Fails) > 0 {
			var alts []*Term
			for _, e := range normal {
				alts = append(alts, pcOf(e))
			}
			mk("fails.if", tags, "unsat", "fails "+strings.Join(srcs, " || "), anyC, Or(alts...))
		}
		// fails.only-if: no fail condition holds but the function panics (non-env)
		{
			var alts []*Term
			for _, e := range failing {
				alts = append(alts, pcOf(e))
			}
			mk("fails.only-if", tags, "unsat", "fails only if "+strings.Join(srcs, " || "), Not(anyC), Or(alts...))
		}
		// failkind: panic kind K only under a clause that allows K
		byKind := map[string][]*Exit{}
		var korder []string
		for _, e := range failing {
			if _, ok := byKind[e.Panic.Kind]; !ok {
				korder = append(korder, e.Panic.Kind)
			}
			byKind[e.Panic.Kind] = append(byKind[e.Panic.Kind], e)
		}
		sort.Strings(korder)
		for _, k := range korder {
			var allow []*Term
			for i, f := range c.Fails {
				for _, fk := range f.Kinds {
					if fk == k {
						allow = append(allow, conds[i])
					}
				}
			}
			var alts []*Term
			for _, e := range byKind[k] {
				alts = append(alts, pcOf(e))
			}
			mk("failkind."+k, tags, "unsat", "panic kind "+k+" only where a fails clause allows it", Not(Or(allow...)), Or(alts...))
		}
		// covers (vacuity probes)
		if len(normal) > 0 {
			var alts []*Term
			for _, e := range normal {
				alts = append(alts, pcOf(e))
			}
			o := mk("cover.return", nil, "sat", "a normal return is reachable", Or(alts...))
			o.Probe = true
		}
		for i, f := range c.Fails {
			var alts []*Term
			for _, e := range failing {
				alts = append(alts, pcOf(e))
			}
			if conds[i].IsFalse() {
				continue
			}
			o := mk(fmt.Sprintf("cover.fails.%d", i+1), nil, "sat", "failure case reachable: "+f.Src, conds[i], Or(alts...))
			o.Probe = true
		}
	}

	// 5. frame: writes to the big.Int heap only on fresh refs or refs in modifies
	if len(ex.BigWrites) > 0 {
		var allowed []*Term
		for _, m := range c.Modifies {
			if r := env.modRef(m); r != nil {
				allowed = append(allowed, r)
			}
		}
		var alts []*Term
		for _, w := range ex.BigWrites {
			ok := []*Term{ILt(w.Ref, IntC(0))}
			for _, a := range allowed {
				ok = append(ok, Eq(w.Ref, a))
			}
			alts = append(alts, And(append(append([]*Term{}, w.PC...), Not(Or(ok...)))...))
		}
		mk("frame.big", nil, "unsat", "big.Int writes only to fresh values or modifies targets", Or(alts...))
	}
	// frame of the ghost meter: a function that meters memory must say so (its callers rely on it)
	gnames := []string{"metered"}
	{
		var extra []string
		for n := range p.CS.GhostVars {
			extra = append(extra, n)
		}
		sort.Strings(extra)
		gnames = append(gnames, extra...)
	}
	for _, gn := range gnames {
		if declaresGhost(c, gn) {
			continue
		}
		var alts []*Term
		for _, e := range normal {
			g := e.St.Ghost[gn]
			if g != nil && !(g.IsConst() && g.Val.Sign() == 0) {
				zero := IntC(0)
				if g.S.K == SBV {
					zero = BVC(big.NewInt(0), g.S.W)
				}
				alts = append(alts, And(pcOf(e), Neq(g, zero)))
			}
		}
		if len(alts) > 0 {
			clause := "ghost state " + gn + " is changed only by functions that declare modifies ghost(\"" + gn + "\")"
			if gn == "metered" {
				clause = "memory is metered only by functions that declare modifies ghost(\"metered\")"
			}
			mk("frame.ghost."+gn, nil, "unsat", clause, Or(alts...))
		}
	}
	return
}

// postEnv: spec environment for evaluating ensures at a normal exit
func (ex *Exec) postEnv(entryEnv *SpecEnv, e *Exit, fn *ssa.Function) *SpecEnv {
	vars := map[string]Val{}
	for k, v := range entryEnv.vars {
		vars[k] = v
	}
	vt := map[string]types.Type{}
	for k, v := range entryEnv.vtypes {
		vt[k] = v
	}
	res := fn.Signature.Results()
	for i, r := range e.Ret {
		nm := fmt.Sprintf("result%d", i)
		vars[nm] = r
		vt[nm] = res.At(i).Type()
		if res.Len() == 1 {
			vars["result"] = r
			vt["result"] = res.At(i).Type()
		}
		if n := res.At(i).Name(); n != "" && n != "_" {
			if _, clash := vars[n]; !clash {
				vars[n] = r
				vt[n] = res.At(i).Type()
			}
		}
		// result names given in the contract header (func f :: params -> results)
		if entryEnv.contract != nil && i < len(entryEnv.contract.Results) {
			if n := entryEnv.contract.Results[i]; n != "" && n != "_" {
				vars[n] = r
				vt[n] = res.At(i).Type()
			}
		}
	}
	return &SpecEnv{ex: ex, st: e.St, old: ex.Entry, vars: vars, vtypes: vt, pkg: entryEnv.pkg, contract: entryEnv.contract}
}

// modRef: the big ref denoted by a modifies clause big(p), or nil
func (ev *SpecEnv) modRef(m Clause) *Term {
	return bigRefOfModifies(ev, m.Expr)
}

// declaresGhost: does the contract list ghost("name") under modifies
func declaresGhost(c *Contract, name string) bool {
	for _, m := range c.Modifies {
		if strings.Contains(m.Src, "ghost(\""+name+"\")") {
			return true
		}
	}
	return false
}

func (ex *Exec) initGhosts(st *State, c *Contract) {
	if ex.Mode == ModeBV {
		st.Ghost["metered"] = BVC(big.NewInt(0), 64)
	} else {
		st.Ghost["metered"] = IntC(0)
	}
	// order of metering and computing (C32): opseen becomes 1 at a call of a dependency contract marked "arith";
	// opmeter is the value ghost("metered") had at the latest such call (the one that produced the result: the
	// shift estimates themselves divide the shift amount before anything is metered). Both are volatile: no frame obligation,
	// and a call through a verified contract that does not list them under modifies leaves them unknown.
	st.Ghost["opseen"] = IntC(0)
	st.Ghost["opmeter"] = st.Ghost["metered"]
	for n, tn := range ex.P.CS.GhostVars {
		if tn == "mathint" {
			st.Ghost[n] = IntC(0) // a mathematical integer in every encoding (counters that must not wrap)
			continue
		}
		t := basicTypeByName(tn)
		st.Ghost[n] = ex.intConst(big.NewInt(0), t)
	}
	if g, ok := c.Options["ghost"]; ok {
		for _, n := range strings.Fields(strings.ReplaceAll(g, ",", " ")) {
			st.Ghost[n] = IntC(0)
		}
	}
}
