package engine

import (
	"fmt"
	"os"
	"path/filepath"
	"sort"
	"time"
)

// cmdWarmup populates the Go build cache with what the checks build on every run (the constant-dump
// program over the packages that carry contracts), so that the first check after a fresh restore is not
// charged the cold compile.
func cmdWarmup(args []string) int {
	t0 := time.Now()
	cs, err := LoadContracts(repoDir(), filepath.Join(VerifDir, "contracts/schemas"), filepath.Join(VerifDir, "contracts/stdlib"), nil)
	if err != nil {
		fmt.Fprintln(os.Stderr, "contracts:", err)
		return 2
	}
	pats := map[string]bool{}
	for _, k := range cs.Order {
		if p := pkgPatternOf(k); p != "" && !cs.Funcs[k].Assumed {
			pats[p] = true
		}
	}
	var pl []string
	for p := range pats {
		pl = append(pl, p)
	}
	sort.Strings(pl)
	prog, err := LoadProgram(repoDir(), pl, nil)
	if err != nil {
		// warming the build cache is an optimisation: a failure here must not fail the setup (the checks
		// themselves report what is wrong with the tree)
		fmt.Fprintln(os.Stderr, "warmup skipped: load:", err)
		return 0
	}
	prog.CS = cs
	if err := prog.LoadConsts(); err != nil {
		fmt.Fprintln(os.Stderr, "warmup skipped: consts:", err)
		return 0
	}
	fmt.Printf("warmup: %d packages, %d contracts, %d constants, %.1fs\n", len(pl), len(cs.Funcs), len(prog.Consts), time.Since(t0).Seconds())
	return 0
}
