package engine

import (
	"fmt"
	"go/types"
	"math"
	"math/big"
	"os"
	"strings"
	"time"
)

// Boundary search: when an obligation that used to be proved is no longer discharged and the solver gives no
// model (timeout / unknown: typically non-linear arithmetic), the report still tries to come with a failing
// input. Inputs at and around the usual bounds (0, +-1, type minimum/maximum, powers of two) are run on the real
// function and judged against the contract exactly like a solver model would be. This is counterexample search
// for the report only: it never makes a check pass, and finding nothing leaves the obligation undischarged.

type primary struct {
	key    string
	lo, hi *big.Int // nil: unbounded
	bvW    int      // >0: bit-vector valued model entry of this width
}

func collectPrimaries(v Val, t types.Type, cells map[*Cell]Val, out *[]primary, depth int) {
	if depth > 4 || v == nil || t == nil {
		return
	}
	switch x := v.(type) {
	case Scalar:
		if x.T.Op != "sym" {
			return
		}
		bits, signed, ok := intInfo(t)
		if !ok {
			return
		}
		pr := primary{key: x.T.Name}
		if signed {
			pr.lo = new(big.Int).Neg(Pow2(bits - 1))
			pr.hi = new(big.Int).Sub(Pow2(bits-1), big.NewInt(1))
		} else {
			pr.lo = big.NewInt(0)
			pr.hi = new(big.Int).Sub(Pow2(bits), big.NewInt(1))
		}
		if x.T.S.K == SBV {
			pr.bvW = x.T.S.W
		}
		*out = append(*out, pr)
	case StructV:
		st, ok := t.Underlying().(*types.Struct)
		if !ok {
			return
		}
		for i, f := range x.F {
			if i < st.NumFields() {
				collectPrimaries(f, st.Field(i).Type(), cells, out, depth+1)
			}
		}
	case PtrV:
		switch x.K {
		case PBig:
			if x.Ref != nil && x.Ref.Op == "sym" {
				*out = append(*out, primary{key: x.Ref.Name + "!val"})
			}
		case PCell:
			if pt, ok := t.Underlying().(*types.Pointer); ok {
				collectPrimaries(cells[x.Cell], pt.Elem(), cells, out, depth+1)
			}
		}
	}
}

func boundaryValues(pr primary) []*big.Int {
	var vals []*big.Int
	seen := map[string]bool{}
	add := func(v *big.Int) {
		if pr.lo != nil && (v.Cmp(pr.lo) < 0 || v.Cmp(pr.hi) > 0) {
			return
		}
		if !seen[v.String()] {
			seen[v.String()] = true
			vals = append(vals, new(big.Int).Set(v))
		}
	}
	n := func(i int64) *big.Int { return big.NewInt(i) }
	if pr.lo != nil {
		one := n(1)
		add(pr.lo)
		add(pr.hi)
		add(n(0))
		add(n(1))
		add(n(-1))
		add(new(big.Int).Add(pr.lo, one))
		add(new(big.Int).Sub(pr.hi, one))
		add(n(2))
		add(n(-2))
		half := new(big.Int).Quo(pr.hi, n(2))
		add(half)
		add(new(big.Int).Add(half, one))
		add(new(big.Int).Quo(pr.lo, n(2)))
	} else {
		add(n(0))
		add(n(1))
		add(n(-1))
	}
	for _, k := range []int{63, 64, 127, 128, 255, 256, 31, 32, 7, 8, 15, 16} {
		p2 := Pow2(k)
		add(p2)
		add(new(big.Int).Neg(p2))
		add(new(big.Int).Sub(p2, n(1)))
		add(new(big.Int).Neg(new(big.Int).Sub(p2, n(1))))
		add(new(big.Int).Add(p2, n(1)))
		add(new(big.Int).Neg(new(big.Int).Add(p2, n(1))))
	}
	for _, c := range []int64{2, -2, 3, -3, 10, -10, 100, 5, 7} {
		add(n(c))
	}
	return vals
}

func fmtModelVal(v *big.Int, pr primary) string {
	if pr.bvW > 0 {
		u := new(big.Int).Set(v)
		if u.Sign() < 0 {
			u.Add(u, Pow2(pr.bvW))
		}
		if pr.bvW%4 == 0 {
			return fmt.Sprintf("#x%0*s", pr.bvW/4, u.Text(16))
		}
		return fmt.Sprintf("#b%0*s", pr.bvW, u.Text(2))
	}
	if v.Sign() < 0 {
		return "(- " + new(big.Int).Neg(v).String() + ")"
	}
	return v.String()
}

const boundaryMaxCandidates = 400

func boundaryCandidates(fr *FuncResult, base map[string]string) []map[string]string {
	ex := fr.Exec
	var prs []primary
	for i, prm := range ex.Fn.Params {
		collectPrimaries(ex.ParamVals[fr.ParamNames[i]], prm.Type(), ex.Entry.Cells, &prs, 0)
	}
	// big-integer inputs: distinct non-nil references (the base model is an arbitrary model of the precondition
	// and may alias them or make them nil); their values are the aliases <ref>!val
	base2 := map[string]string{}
	for k, v := range base {
		base2[k] = v
	}
	base = base2
	var use []primary
	nref := 0
	for _, pr := range prs {
		if strings.HasSuffix(pr.key, "!ref!val") {
			nref++
			base[strings.TrimSuffix(pr.key, "!val")] = fmt.Sprint(nref)
			use = append(use, pr)
		} else if _, ok := base[pr.key]; ok {
			use = append(use, pr)
		}
	}
	if len(use) == 0 {
		if os.Getenv("VERIF_DEBUG_REPLAY") != "" {
			var ks []string
			for k := range base {
				ks = append(ks, k)
			}
			fmt.Fprintf(os.Stderr, "boundary search: primaries %v not among model keys %v\n", prs, ks)
		}
		return nil
	}
	if len(use) > 5 {
		use = use[:5]
	}
	per := int(math.Floor(math.Pow(boundaryMaxCandidates, 1/float64(len(use)))))
	if per < 2 {
		per = 2
	}
	choices := make([][]*big.Int, len(use))
	for i, pr := range use {
		vs := boundaryValues(pr)
		if len(vs) > per {
			vs = vs[:per]
		}
		choices[i] = vs
	}
	var out []map[string]string
	var rec func(i int, cur map[string]string)
	rec = func(i int, cur map[string]string) {
		if len(out) >= boundaryMaxCandidates {
			return
		}
		if i == len(use) {
			m := map[string]string{}
			for k, v := range base {
				m[k] = v
			}
			for k, v := range cur {
				m[k] = v
			}
			out = append(out, m)
			return
		}
		for _, v := range choices[i] {
			cur[use[i].key] = fmtModelVal(v, use[i])
			rec(i+1, cur)
		}
	}
	rec(0, map[string]string{})
	return out
}

// boundarySearch: see the comment at the top of this file.
func (p *Program) boundarySearch(opts CheckOpts, res *OblResult, fr *FuncResult, work string, wantGauge bool) *ReplayResult {
	var pre *Obligation
	for _, o := range fr.Obligations {
		if o.Short == "pre.sat" {
			pre = o
		}
	}
	if pre == nil {
		return nil
	}
	ans := Solve(pre.Query, pre.Name+".base", SolverCfg{Timeout: 10 * time.Second, WorkDir: work, Order: []string{"z3-new"}})
	if ans.Result != "sat" || ans.Model == nil {
		if os.Getenv("VERIF_DEBUG_REPLAY") != "" {
			fmt.Fprintf(os.Stderr, "boundary search: no base model (%s)\n", ans.Result)
		}
		return nil
	}
	cands := boundaryCandidates(fr, ans.Model)
	if os.Getenv("VERIF_DEBUG_REPLAY") != "" {
		fmt.Fprintf(os.Stderr, "boundary search: %d candidates\n", len(cands))
	}
	if len(cands) == 0 {
		return nil
	}
	rr := p.replayCandidateList(fr, cands, work, opts.Overlay, wantGauge)
	if rr != nil {
		rr.Search = fmt.Sprintf("boundary search over %d candidate inputs (the solver gave no model)", len(cands))
	}
	return rr
}
