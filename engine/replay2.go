package engine

import (
	"bytes"
	"encoding/json"
	"fmt"
	"go/types"
	"math/big"
	"os"
	"os/exec"
	"path/filepath"
	"sort"
	"strings"
	"time"

	"golang.org/x/tools/go/ssa"
)

// concrete definitions of the uninterpreted spec functions, used only when judging a concrete
// observation (all arguments are ground there)
var ufunConcrete = map[string]string{
	// judge only (all arguments are pinned to the observed values): shifts and two's-complement bitwise operations on
	// unbounded integers, by recursion on the bits (x div 2 / x mod 2 are floor operations, so a negative value is its
	// infinite sign extension; the recursion ends at 0 or -1)
	"shl":   "(define-fun-rec shl ((x Int) (n Int)) Int (ite (or (<= n 0) (= x 0)) x (shl (* 2 x) (- n 1))))",
	"shr":   "(define-fun-rec shr ((x Int) (n Int)) Int (ite (or (<= n 0) (= x 0) (= x (- 1))) x (shr (div x 2) (- n 1))))",
	"tcand": "(define-fun-rec tcand ((x Int) (y Int)) Int (ite (or (= x 0) (= y 0)) 0 (ite (= x (- 1)) y (ite (= y (- 1)) x (+ (* 2 (tcand (div x 2) (div y 2))) (* (mod x 2) (mod y 2)))))))",
	"tcor":  "(define-fun-rec tcor ((x Int) (y Int)) Int (ite (= x 0) y (ite (= y 0) x (ite (or (= x (- 1)) (= y (- 1))) (- 1) (+ (* 2 (tcor (div x 2) (div y 2))) (ite (= (+ (mod x 2) (mod y 2)) 0) 0 1))))))",
	"tcxor": "(define-fun-rec tcxor ((x Int) (y Int)) Int (ite (= x 0) y (ite (= y 0) x (ite (= x (- 1)) (- (- y) 1) (ite (= y (- 1)) (- (- x) 1) (+ (* 2 (tcxor (div x 2) (div y 2))) (ite (= (mod x 2) (mod y 2)) 0 1)))))))",
	"pow2u":  pow2uTable(),
	"umul":   "(define-fun umul ((a Int) (b Int)) Int (* a b))",
	"words":  "(define-fun-rec words ((x Int)) Int (ite (= x 0) 0 (ite (< x 0) (words (- x)) (ite (< x 18446744073709551616) 1 (+ 1 (words (div x 18446744073709551616)))))))",
	"bitlen": "(define-fun-rec bitlen ((x Int)) Int (ite (= x 0) 0 (ite (< x 0) (bitlen (- x)) (ite (< x 18446744073709551616) (ite (< x 4294967296) (ite (< x 65536) (ite (< x 256) (ite (< x 16) (ite (< x 4) (ite (< x 2) 1 2) (ite (< x 8) 3 4)) (+ 4 (bitlen (div x 16)))) (+ 8 (bitlen (div x 256)))) (+ 16 (bitlen (div x 65536)))) (+ 32 (bitlen (div x 4294967296)))) (+ 64 (bitlen (div x 18446744073709551616)))))))",
}

func pow2uTable() string {
	var b strings.Builder
	b.WriteString("(define-fun pow2u ((y Int)) Int ")
	for i := 0; i <= 520; i++ {
		fmt.Fprintf(&b, "(ite (= y %d) %s ", i, Pow2(i).String())
	}
	fmt.Fprintf(&b, "(ite (> y 520) %s 1)", Pow2(521).String())
	b.WriteString(strings.Repeat(")", 521))
	b.WriteString(")")
	return b.String()
}

// candidate models: the solver's model first; then, for big-integer inputs whose word length the model
// fixes (through the uninterpreted `words`), values built to have exactly that many words.
func candidateModels(model map[string]string) []map[string]string {
	out := []map[string]string{model}
	type bigIn struct {
		val, words string
	}
	var ins []bigIn
	for k := range model {
		if strings.HasSuffix(k, "!ref!words") {
			base := strings.TrimSuffix(k, "!words")
			if _, ok := model[base+"!val"]; ok {
				ins = append(ins, bigIn{base + "!val", k})
			}
		}
	}
	if len(ins) == 0 || len(ins) > 3 {
		return out
	}
	sort.Slice(ins, func(i, j int) bool { return ins[i].val < ins[j].val })
	// inputs that alias in the model (same ref) must keep one value
	seenRef := map[string]bool{}
	var uniq []bigIn
	for _, in := range ins {
		r := model[strings.TrimSuffix(in.val, "!val")]
		if r != "" && seenRef[r] {
			return out
		}
		seenRef[r] = true
		uniq = append(uniq, in)
	}
	ins = uniq
	choices := make([][]string, len(ins))
	for i, in := range ins {
		w, ok := ModelInt(model[in.words])
		v, ok2 := ModelInt(model[in.val])
		if !ok || !ok2 || w.Sign() < 0 || w.Cmp(big.NewInt(100000)) > 0 {
			choices[i] = []string{model[in.val]}
			continue
		}
		n := int(w.Int64())
		if n == 0 {
			choices[i] = []string{"0"}
			continue
		}
		hi := new(big.Int).Sub(Pow2(64*n), big.NewInt(1))
		lo := Pow2(64 * (n - 1))
		if v.Sign() < 0 {
			hi.Neg(hi)
			lo.Neg(lo)
		}
		choices[i] = []string{hi.String(), lo.String(), v.String()}
	}
	var rec func(i int, cur map[string]string)
	rec = func(i int, cur map[string]string) {
		if len(out) > 12 {
			return
		}
		if i == len(ins) {
			m := map[string]string{}
			for k, v := range model {
				m[k] = v
			}
			for k, v := range cur {
				m[k] = v
			}
			out = append(out, m)
			return
		}
		for _, c := range choices[i] {
			cur[ins[i].val] = c
			rec(i+1, cur)
		}
	}
	rec(0, map[string]string{})
	// boundary grid over word lengths and signs (search for a failing input when the model's own values,
	// which come from an abstraction of the word-length function, do not fail on the real code)
	grid := []int{1, 2, 6, 7, 41, 100}
	var gvals []string
	for _, w := range grid {
		hi := new(big.Int).Sub(Pow2(64*w), big.NewInt(1))
		gvals = append(gvals, hi.String(), new(big.Int).Neg(hi).String())
	}
	var rec2 func(i int, cur map[string]string)
	rec2 = func(i int, cur map[string]string) {
		if len(out) > 170 {
			return
		}
		if i == len(ins) {
			m := map[string]string{}
			for k, v := range model {
				m[k] = v
			}
			for k, v := range cur {
				m[k] = v
			}
			out = append(out, m)
			return
		}
		for _, c := range gvals {
			cur[ins[i].val] = c
			rec2(i+1, cur)
		}
	}
	if len(ins) <= 2 {
		rec2(0, map[string]string{})
	}
	return out
}

type harnessCall struct {
	body  string
	model map[string]string
	input string
	call  string
	// objects the harness could not build and passed as nil although the model has them non-nil
	nilSubst []string
}

// replayCandidates builds one harness with all candidate inputs, runs it once, and judges each outcome
// until one contradicts the contract.
func (p *Program) replayCandidates(fr *FuncResult, model map[string]string, work string, overlaySrc map[string][]byte, wantGauge bool) *ReplayResult {
	cands := []map[string]string{model}
	if wantGauge {
		cands = candidateModels(model)
	}
	// a function that takes the host's random source: the model's inputs with a few byte streams for the source
	// (all ones first so that a full-width sample is drawn, a small sample, zeros; every stream continues with zeros,
	// which every modulus accepts)
	for _, prm := range fr.Exec.Fn.Params {
		if hasMethod(prm.Type(), "ReadRandom") {
			var withStreams []map[string]string
			for _, stream := range []string{strings.Repeat("ff", 32), "0000000000000005", strings.Repeat("ff", 7) + "fe" + strings.Repeat("00", 24) + "07", "", strings.Repeat("80", 32) + "01"} {
				for _, cm := range cands {
					m := map[string]string{"__stream": stream}
					for k, v := range cm {
						m[k] = v
					}
					withStreams = append(withStreams, m)
				}
			}
			cands = withStreams
			break
		}
	}
	return p.replayCandidateList(fr, cands, work, overlaySrc, wantGauge)
}

// replayCandidateList runs the real function on every candidate input (one harness process) and judges the
// observed outcomes against the contract, stopping at the first violating one.
func (p *Program) replayCandidateList(fr *FuncResult, cands []map[string]string, work string, overlaySrc map[string][]byte, wantGauge bool) *ReplayResult {
	rr := &ReplayResult{}
	ex := fr.Exec
	fn := ex.Fn
	imports := map[string]string{}
	var decls []string
	var calls []harnessCall
	for _, cm := range cands {
		me := &modelEnv{m: cm, pkg: fn.Pkg.Pkg, prog: p, wantGauge: wantGauge, imports: imports, cells: ex.Entry.Cells}
		me.declBase = len(decls)
		var argExprs []string
		ok := true
		for i, prm := range fn.Params {
			nm := fr.ParamNames[i]
			if be := boundArgExpr(fr.Contract, nm, fn.Pkg.Pkg.Name()); be != "" {
				// instance contract: the parameter is the value of the bind expression itself
				me.desc = append(me.desc, nm+"="+be)
				argExprs = append(argExprs, be)
				if ip, in := p.boundArgImport(be); ip != "" {
					imports[ip] = in
				}
				continue
			}
			e, good := me.goExpr(nm, ex.ParamVals[nm], prm.Type())
			if !good {
				ok = false
				if rr.Error == "" {
					rr.Error = "cannot construct argument " + nm + " from the model"
					rr.Input = strings.Join(me.desc, " ")
				}
				break
			}
			argExprs = append(argExprs, e)
		}
		if !ok {
			continue
		}
		decls = append(decls, me.decls...)
		// objects passed by pointer: keep them in variables so that their fields can be observed after the call
		var pre []string
		var extras []string
		for i, prm := range fn.Params {
			pt, ok := prm.Type().Underlying().(*types.Pointer)
			if ok && strings.HasPrefix(argExprs[i], "verifAddr(") {
				// pointer to an integer/boolean variable: its final value is observed after the call
				pre = append(pre, fmt.Sprintf("p%d := %s", i, argExprs[i]))
				argExprs[i] = fmt.Sprintf("p%d", i)
				extras = append(extras, fmt.Sprintf("*p%d", i))
				continue
			}
			if !ok || !strings.HasPrefix(argExprs[i], "&") {
				continue
			}
			stt, ok := pt.Elem().Underlying().(*types.Struct)
			if !ok {
				continue
			}
			pre = append(pre, fmt.Sprintf("p%d := %s", i, argExprs[i]))
			argExprs[i] = fmt.Sprintf("p%d", i)
			for fi := 0; fi < stt.NumFields(); fi++ {
				extras = append(extras, fmt.Sprintf("p%d.%s", i, stt.Field(fi).Name()))
			}
		}
		var call string
		if fn.Signature.Recv() != nil {
			call = fmt.Sprintf("(%s).%s(%s)", argExprs[0], fn.Name(), strings.Join(argExprs[1:], ", "))
		} else {
			call = fmt.Sprintf("%s(%s)", fn.Name(), strings.Join(argExprs, ", "))
		}
		nres := fn.Signature.Results().Len()
		var rs []string
		for i := 0; i < nres; i++ {
			rs = append(rs, fmt.Sprintf("r%d", i))
		}
		if me.randomUsed {
			pre = append([]string{fmt.Sprintf("verifRandStream = verifHex(%q)", cm["__stream"])}, pre...)
		}
		body := strings.Join(pre, "\n\t\t")
		if len(pre) > 0 {
			body += "\n\t\t"
		}
		if nres == 0 {
			body += call
		} else {
			body += strings.Join(rs, ", ") + " := " + call
		}
		body += "\n\t\treturn []any{" + strings.Join(append(rs, extras...), ", ") + "}"
		if len(pre) > 0 {
			call = strings.Join(pre, "; ") + "; " + call
		}
		in := strings.Join(me.desc, " ")
		if len(in) > 600 {
			in = in[:600] + "..."
		}
		calls = append(calls, harnessCall{body: body, model: cm, input: in, call: call, nilSubst: me.nilSubst})
	}
	if len(calls) == 0 {
		rr.Verdict = "not replayable"
		return rr
	}
	var bodies []string
	for _, c := range calls {
		bodies = append(bodies, c.body)
	}
	outs, cmdline, err := p.runHarnessMulti(fn, bodies, decls, imports, work, overlaySrc)
	rr.Cmd = cmdline
	rr.Decls, rr.Imports = decls, imports
	rr.Input, rr.GoCall = calls[0].input, truncate(calls[0].call, 2000)
	if err != nil {
		rr.Error = err.Error()
		rr.Verdict = "harness failed"
		return rr
	}
	for i, out := range outs {
		if i >= len(calls) {
			break
		}
		var oc outcome
		if err := json.Unmarshal([]byte(out), &oc); err != nil {
			continue
		}
		var verdict string
		var violated bool
		if oc.Panicked && oc.Runtime && strings.Contains(oc.PanicMsg, "nil pointer dereference") && len(calls[i].nilSubst) > 0 {
			// the harness could not build an object the function reads (it is behind an abstraction in the
			// contract) and passed nil: the crash is the harness's, not the code's
			verdict = "not replayable: the harness cannot construct " + strings.Join(calls[i].nilSubst, ", ") + " (passed as nil, which the real code dereferences)"
		} else if oc.Panicked && strings.Contains(oc.PanicType, "verifTooManyDraws") {
			verdict = "not judged: the real code rejected 100000 draws of the replaying random source, which ends in zeros (termination is not part of the contract)"
		} else {
			verdict, violated = p.judge(fr, calls[i].model, &oc, work)
		}
		if os.Getenv("VERIF_DEBUG_REPLAY") != "" {
			fmt.Fprintf(os.Stderr, "candidate %d: %s\n  -> %s\n  => %v %s\n", i, truncate(calls[i].input, 200), truncate(out, 300), violated, verdict)
		}
		if i == 0 || violated {
			raw, _ := json.Marshal(oc)
			rr.Outcome = nil
			json.Unmarshal(raw, &rr.Outcome)
			rr.Verdict = verdict
			rr.Confirmed = violated
			rr.Input, rr.GoCall = calls[i].input, calls[i].call
			rr.Model = calls[i].model
		}
		if violated {
			break
		}
	}
	return rr
}

// runHarnessMulti builds (through an overlay; nothing is written to /repo) and runs a program that
// performs each call on the real function and prints one JSON outcome per line.
func (p *Program) runHarnessMulti(fn *ssa.Function, bodies []string, decls []string, imports map[string]string, work string, overlaySrc map[string][]byte) ([]string, string, error) {
	harnessSeq++
	dir := filepath.Join(work, fmt.Sprintf("harness%d", harnessSeq))
	os.MkdirAll(dir, 0o755)
	pkgPath := fn.Pkg.Pkg.Path()
	rel := strings.TrimPrefix(strings.TrimPrefix(pkgPath, cadenceMod), "/")
	desc := describeDefault
	if d, ok := describePkg[pkgPath]; ok {
		desc = d
	}
	var src bytes.Buffer
	fmt.Fprintf(&src, "package %s\n\nimport (\n\tverifFmt \"fmt\"\n\tverifbig \"math/big\"\n\tverifhex \"encoding/hex\"\n\tverifjson \"encoding/json\"\n\tverifreflect \"reflect\"\n\tverifruntime \"runtime\"\n", fn.Pkg.Pkg.Name())
	var ipaths []string
	for ip := range imports {
		ipaths = append(ipaths, ip)
	}
	sort.Strings(ipaths)
	allCode := strings.Join(bodies, "\n") + strings.Join(decls, "\n")
	for _, ip := range ipaths {
		if ip != pkgPath && strings.Contains(allCode, imports[ip]+".") {
			fmt.Fprintf(&src, "\t%s %q\n", imports[ip], ip)
		}
	}
	src.WriteString(")\n")
	src.WriteString(replayHelpers)
	src.WriteString(desc)
	for _, d := range decls {
		src.WriteString("\n" + d + "\n")
	}
	src.WriteString("\nfunc VerifReplay() []string {\n\tvar outs []string\n")
	for _, b := range bodies {
		fmt.Fprintf(&src, "\touts = append(outs, VerifReplayRun(func() []any {\n\t\t%s\n\t}))\n", b)
	}
	src.WriteString("\treturn outs\n}\n")
	gen := filepath.Join(dir, "replay_gen.go")
	os.WriteFile(gen, src.Bytes(), 0o644)
	mainSrc := fmt.Sprintf("package main\n\nimport (\n\t\"fmt\"\n\tp %q\n)\n\nfunc main() {\n\tfor _, o := range p.VerifReplay() {\n\t\tfmt.Println(o)\n\t}\n}\n", pkgPath)
	mainFile := filepath.Join(dir, "main.go")
	os.WriteFile(mainFile, []byte(mainSrc), 0o644)
	ov := map[string]string{
		filepath.Join(p.Repo, rel, "zz_verif_replay.go"):             gen,
		filepath.Join(p.Repo, "cmd", "zz_verif_replay", "main.go"): mainFile,
	}
	i := 0
	for path, data := range overlaySrc {
		i++
		f := filepath.Join(dir, fmt.Sprintf("ov%d.go", i))
		os.WriteFile(f, data, 0o644)
		ov[path] = f
	}
	ovJSON, _ := json.Marshal(map[string]any{"Replace": ov})
	ovFile := filepath.Join(dir, "overlay.json")
	os.WriteFile(ovFile, ovJSON, 0o644)
	bin := filepath.Join(dir, "replay.bin")
	cmdline := fmt.Sprintf("cd %s && GOFLAGS=-mod=mod GOPROXY=off go build -overlay %s -o %s ./cmd/zz_verif_replay && %s", p.Repo, ovFile, bin, bin)
	cmd := exec.Command("go", "build", "-tags", "verif", "-overlay", ovFile, "-o", bin, "./cmd/zz_verif_replay")
	cmd.Dir = p.Repo
	cmd.Env = append(os.Environ(), "GOFLAGS=-mod=mod", "GOPROXY=off")
	if out, err := cmd.CombinedOutput(); err != nil {
		return nil, cmdline, fmt.Errorf("harness build failed: %v\n%s\n--- calls ---\n%s", err, truncate(string(out), 2000), truncate(strings.Join(bodies, "\n"), 2000))
	}
	run := exec.Command(bin)
	var stdout bytes.Buffer
	run.Stdout = &stdout
	done := make(chan error, 1)
	if err := run.Start(); err != nil {
		return nil, cmdline, err
	}
	go func() { done <- run.Wait() }()
	select {
	case err := <-done:
		if err != nil {
			return nil, cmdline, fmt.Errorf("harness run: %v", err)
		}
	case <-time.After(120 * time.Second):
		run.Process.Kill()
		return nil, cmdline, fmt.Errorf("harness timed out")
	}
	var outs []string
	for _, l := range strings.Split(strings.TrimSpace(stdout.String()), "\n") {
		if l = strings.TrimSpace(l); l != "" {
			outs = append(outs, l)
		}
	}
	return outs, cmdline, nil
}
