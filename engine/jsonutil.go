package engine

import "encoding/json"

func jsonMarshalIndent(v any) ([]byte, error) { return json.MarshalIndent(v, "", " ") }
