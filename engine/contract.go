package engine

import (
	"bufio"
	"fmt"
	"go/ast"
	"go/parser"
	"os"
	"path/filepath"
	"regexp"
	"sort"
	"strconv"
	"strings"
)

// Clause is one tagged expression of a contract.
type Clause struct {
	Tags  []string // property ids; empty = belongs to every property using the function
	Src   string
	Expr  ast.Expr
	Kinds []string // fails: allowed panic kinds
	Name  string   // optional label
}

type LetDef struct {
	Name string
	Src  string
	Expr ast.Expr
	Post bool // evaluated in the post-state (after the call) rather than at entry
}

type LoopSpec struct {
	Invariants []Clause
	Unroll     int
	Modifies   []string
}

type Contract struct {
	Key      string // e.g. "interpreter.(Int8Value).Plus" or "rlp.DecodeString"
	File     string
	Line     int
	Mode     string
	Requires []Clause
	Assume   []Clause
	Cases    []Clause
	CasesPost []Clause // casesplitpost: cases evaluated in the exit state
	Ghosts   [][2]string
	AssumePost []Clause
	Lets     []LetDef
	Ensures  []Clause
	TrustEnsures []Clause // postconditions assumed at call sites but not proved of the body
	Fails    []Clause
	NoFail   bool // "nofail": function never panics except env kinds (equivalent to fails false)
	Env      []string
	Modifies []Clause
	Assumed  bool
	Inline   bool
	Pure     bool
	Arith    bool // "arith": an operation that computes (and allocates) an arithmetic result; ghost opseen/opmeter record how much memory had been metered when the first one ran (C32)
	Canary   bool
	Loops    map[int]*LoopSpec
	Props    map[string]bool // properties this function is listed under ("props C11 C13")
	Params   []string        // for assumed contracts on functions without source: parameter names
	Results  []string        // result names
	Iface    bool            // interface-method contract
	Replay   string          // replay adapter name
	Schema   string          // schema this contract came from
	Bounded  string          // if set: this contract is only a bounded check (label), not counted as proof
	CallGhosts []LetDef      // instantiation of callees' ghosts at this function's call sites (callghost f.G = expr)
	Theorem  *SpecFun        // standalone lemma (no function): the contract's only obligation is its universal closure
	Base     string          // function key without the "@label" suffix of an instance contract
	Binds    []LetDef        // instance contracts: parameters fixed to the value of a spec expression (bind p = expr)
	Options  map[string]string
}

type TypeSpec struct {
	Name string // "interpreter.Int128Value"
	Inv  *Clause
	Num  *Clause
	Int  *Clause // integer part (truncated toward zero); defaults to Num
	Attrs map[string]*Clause // ghost attributes of the type's values (typeattr)
}

type ContractSet struct {
	Funcs    map[string]*Contract
	Order    []string
	Types    map[string]*TypeSpec
	SpecFuns map[string]*SpecFun
	RecFuns  map[string]*RecFun // recursive spec functions (define-fun-rec)
	UFuns    map[string]*UFun
	GhostVars map[string]string // ghost state variables: name -> Go integer type name (ghostvar NAME TYPE)
	AutoInline []string         // dependency packages whose contract-less functions are executed inline
	PkgNeeds map[string][]string // property -> extra package paths its check must load (needs Cnn)
	Axioms   []*Axiom
	Files    []string
	Instances map[string][]string // function key -> keys of its instance contracts ("key@label")
	// HeapObjs: struct types whose objects live in an unbounded, possibly nil-terminated linked heap
	// (heapobj T Field=ufun ...): qualified type name -> field name -> the uninterpreted function of the object's
	// reference that stands for the field (read-only heap: stores through such pointers are rejected)
	HeapObjs map[string]map[string]string
}

// UFun is an uninterpreted spec function: //@ ufun words(Int) Int
type UFun struct {
	Name string
	Args []string
	Res  string
}

// Axiom is an assumed fact about uninterpreted functions: //@ axiom name: forall(...)
type Axiom struct {
	Name string
	Src  string
	Expr ast.Expr
	Uses []string
}

// SpecFun is a user-defined pure spec function: //@ spec name(a, b) = expr
// RecFun: a recursive specification function, emitted as an SMT define-fun-rec.
//
//	recfun name(inp []byte, i int, e int) bool = body
//
// Parameters carry Go types (a byte slice is passed as its contents, offset and length); the body may call the
// function itself. Termination is the writer's obligation (stated next to the definition).
type RecFun struct {
	Name   string
	Params []string
	PTypes []string
	Result string
	Src    string
	Expr   ast.Expr
}

type SpecFun struct {
	Name   string
	Params []string
	PTypes []string // optional Go integer type per parameter ("x uint64"); "" = mathematical integer
	Src    string
	Expr   ast.Expr
	Lemma  bool // proved (universally closed over the integers) rather than assumed
	Pkg    string // package path of the contract file that defines it ("" for spec files): type names in the body resolve there
}

var tagRe = regexp.MustCompile(`^([a-z]+)(?:\[([A-Za-z0-9 ,]+)\])?\s*(.*)$`)

func preprocessExpr(s string) string {
	// spec sugar -> parseable Go
	s = strings.ReplaceAll(s, "==>", "<-") // placeholder handled below
	return s
}

// ParseSpecExpr parses a spec expression. Sugar: `A ==> B` (lowest precedence, right assoc).
func ParseSpecExpr(src string) (ast.Expr, error) {
	if strings.Contains(src, "==>") {
		src = rewriteImp(src)
	}
	return parseSpecExpr0(src)
}

// rewriteImp turns every `A ==> B` (lowest precedence, right associative, at any nesting depth) into imp(A, B).
func rewriteImp(s string) string {
	pieces := splitTop(s, ",")
	for i, p := range pieces {
		parts := splitTop(p, "==>")
		if len(parts) > 1 {
			pieces[i] = "imp(" + rewriteImp(parts[0]) + ", " + rewriteImp(strings.Join(parts[1:], "==>")) + ")"
			continue
		}
		// descend into bracketed groups
		var b strings.Builder
		depth := 0
		start := -1
		for k := 0; k < len(p); k++ {
			c := p[k]
			switch c {
			case '(', '[', '{':
				if depth == 0 {
					b.WriteByte(c)
					start = k + 1
				}
				depth++
			case ')', ']', '}':
				depth--
				if depth == 0 {
					b.WriteString(rewriteImp(p[start:k]))
					b.WriteByte(c)
				}
			default:
				if depth == 0 {
					b.WriteByte(c)
				}
			}
		}
		pieces[i] = b.String()
	}
	return strings.Join(pieces, ",")
}

func parseSpecExpr0(src string) (ast.Expr, error) {
	// split on top-level ==>
	parts := splitTop(src, "==>")
	if len(parts) > 1 {
		// right associative
		rhs, err := ParseSpecExpr(strings.Join(parts[1:], "==>"))
		if err != nil {
			return nil, err
		}
		lhs, err := ParseSpecExpr(parts[0])
		if err != nil {
			return nil, err
		}
		return &ast.CallExpr{Fun: ast.NewIdent("imp"), Args: []ast.Expr{lhs, rhs}}, nil
	}
	e, err := parser.ParseExpr(src)
	if err != nil {
		return nil, fmt.Errorf("spec expr %q: %v", src, err)
	}
	return e, nil
}

func splitTop(s, sep string) []string {
	depth := 0
	var parts []string
	last := 0
	for i := 0; i < len(s); i++ {
		switch s[i] {
		case '(', '[', '{':
			depth++
		case ')', ']', '}':
			depth--
		}
		if depth == 0 && strings.HasPrefix(s[i:], sep) {
			parts = append(parts, s[last:i])
			last = i + len(sep)
			i += len(sep) - 1
		}
	}
	parts = append(parts, s[last:])
	return parts
}

func mkClause(tags, src string) (Clause, error) {
	c := Clause{Src: strings.TrimSpace(src)}
	if tags != "" {
		for _, t := range strings.FieldsFunc(tags, func(r rune) bool { return r == ',' || r == ' ' }) {
			c.Tags = append(c.Tags, t)
		}
	}
	e, err := ParseSpecExpr(c.Src)
	if err != nil {
		return c, err
	}
	c.Expr = e
	return c, nil
}

// LoadContracts reads all zz_verif_contracts.go files under repo and all *.spec files under stdlibDir.
func LoadContracts(repo string, schemaDir string, stdlibDir string, overlay map[string][]byte) (*ContractSet, error) {
	cs := &ContractSet{Funcs: map[string]*Contract{}, Types: map[string]*TypeSpec{}, SpecFuns: map[string]*SpecFun{}, RecFuns: map[string]*RecFun{}}
	var files []string
	err := filepath.Walk(repo, func(p string, info os.FileInfo, err error) error {
		if err != nil {
			return nil
		}
		if info.IsDir() {
			b := filepath.Base(p)
			if b == ".git" || b == "node_modules" || b == "npm-packages" {
				return filepath.SkipDir
			}
			return nil
		}
		if filepath.Base(p) == "zz_verif_contracts.go" {
			files = append(files, p)
		}
		return nil
	})
	if err != nil {
		return nil, err
	}
	// generated verifier-only files that exist only in the overlay
	onDisk := map[string]bool{}
	for _, f := range files {
		onDisk[f] = true
	}
	for f := range overlay {
		if !onDisk[f] && strings.HasPrefix(filepath.Base(f), "zz_verif_") && strings.HasSuffix(f, ".go") {
			files = append(files, f)
		}
	}
	sort.Strings(files)
	for _, f := range files {
		rel, _ := filepath.Rel(repo, filepath.Dir(f))
		var data []byte
		if o, ok := overlay[f]; ok {
			data = o
		} else {
			data, err = os.ReadFile(f)
			if err != nil {
				return nil, err
			}
		}
		pkgPath := "github.com/onflow/cadence"
		if rel != "." {
			pkgPath += "/" + filepath.ToSlash(rel)
		}
		var lines []string
		sc := bufio.NewScanner(strings.NewReader(string(data)))
		sc.Buffer(make([]byte, 1<<20), 1<<20)
		for sc.Scan() {
			l := sc.Text()
			t := strings.TrimSpace(l)
			if strings.HasPrefix(t, "//@") {
				lines = append(lines, strings.TrimPrefix(t, "//@"))
			} else {
				lines = append(lines, "")
			}
		}
		if err := cs.parseLines(lines, f, pkgPath, schemaDir); err != nil {
			return nil, err
		}
		cs.Files = append(cs.Files, f)
	}
	specs, _ := filepath.Glob(filepath.Join(stdlibDir, "*.spec"))
	sort.Strings(specs)
	for _, f := range specs {
		data, err := os.ReadFile(f)
		if err != nil {
			return nil, err
		}
		lines := strings.Split(string(data), "\n")
		for i, l := range lines {
			if strings.HasPrefix(strings.TrimSpace(l), "#") {
				lines[i] = ""
			}
		}
		if err := cs.parseLines(lines, f, "", schemaDir); err != nil {
			return nil, err
		}
		cs.Files = append(cs.Files, f)
	}
	return cs, nil
}

var schemaRe = regexp.MustCompile(`^schema\s+([A-Za-z0-9_]+)\s*\((.*)\)\s*$`)

func (cs *ContractSet) parseLines(lines []string, file, pkgPath, schemaDir string) error {
	var cur *Contract
	for i := 0; i < len(lines); i++ {
		raw := lines[i]
		l := strings.TrimSpace(raw)
		if l == "" {
			continue
		}
		if idx := strings.Index(l, " //"); idx >= 0 {
			l = strings.TrimSpace(l[:idx])
		}
		where := fmt.Sprintf("%s:%d", file, i+1)
		if m := schemaRe.FindStringSubmatch(l); m != nil {
			params := map[string]string{}
			for _, kv := range splitTop(m[2], ",") {
				kv = strings.TrimSpace(kv)
				if kv == "" {
					continue
				}
				eq := strings.Index(kv, "=")
				if eq < 0 {
					return fmt.Errorf("%s: bad schema param %q", where, kv)
				}
				params[strings.TrimSpace(kv[:eq])] = strings.TrimSpace(kv[eq+1:])
			}
			sf := filepath.Join(schemaDir, m[1]+".schema")
			data, err := os.ReadFile(sf)
			if err != nil {
				return fmt.Errorf("%s: schema %s: %v", where, m[1], err)
			}
			text := string(data)
			for k, v := range params {
				text = strings.ReplaceAll(text, "${"+k+"}", v)
			}
			if j := strings.Index(text, "${"); j >= 0 {
				end := j + 30
				if end > len(text) {
					end = len(text)
				}
				return fmt.Errorf("%s: schema %s: unbound placeholder near %q", where, m[1], text[j:end])
			}
			sl := strings.Split(text, "\n")
			for k, x := range sl {
				if strings.HasPrefix(strings.TrimSpace(x), "#") {
					sl[k] = ""
				}
			}
			before := len(cs.Order)
			if err := cs.parseLines(sl, sf+"<-"+where, pkgPath, schemaDir); err != nil {
				return err
			}
			for _, k := range cs.Order[before:] {
				cs.Funcs[k].Schema = m[1]
			}
			cur = nil
			continue
		}
		fields := strings.Fields(l)
		if strings.HasPrefix(l, "theorem[") {
			// theorem[Cnn] name(x uint64, k uint64) = formula: a standalone lemma (its universal closure over the
			// parameter types) that is an obligation of property Cnn in its own right; also usable as a macro
			cb := strings.Index(l, "]")
			if cb < 0 {
				return fmt.Errorf("%s: bad theorem", where)
			}
			tag := l[len("theorem["):cb]
			rest := strings.TrimSpace(l[cb+1:])
			eq := strings.Index(rest, "=")
			op := strings.Index(rest, "(")
			cp := strings.Index(rest, ")")
			if eq < 0 || op < 0 || cp < 0 || cp > eq {
				return fmt.Errorf("%s: bad theorem", where)
			}
			sf := &SpecFun{Name: strings.TrimSpace(rest[:op]), Src: strings.TrimSpace(rest[eq+1:]), Lemma: true}
			typed := false
			for _, p := range strings.Split(rest[op+1:cp], ",") {
				if p = strings.TrimSpace(p); p != "" {
					pf := strings.Fields(p)
					sf.Params = append(sf.Params, pf[0])
					if len(pf) > 1 {
						sf.PTypes = append(sf.PTypes, pf[1])
						typed = true
					} else {
						sf.PTypes = append(sf.PTypes, "")
					}
				}
			}
			e, err := ParseSpecExpr(sf.Src)
			if err != nil {
				return fmt.Errorf("%s: %v", where, err)
			}
			sf.Expr = e
			cs.SpecFuns[sf.Name] = sf
			key := pkgPath + ".theorem." + sf.Name
			tc := &Contract{Key: key, File: file, Line: i + 1, Loops: map[int]*LoopSpec{}, Props: map[string]bool{tag: true},
				Options: map[string]string{}, Base: key, Theorem: sf}
			if typed {
				tc.Mode = "bv"
			}
			cs.Funcs[key] = tc
			cs.Order = append(cs.Order, key)
			cur = nil
			continue
		}
		switch fields[0] {
		case "func", "iface":
			key := strings.TrimSpace(strings.TrimPrefix(l, fields[0]))
			// optional signature for assumed functions: func KEY(params) (results)
			var params, results []string
			if p := strings.Index(key, " :: "); p >= 0 {
				sig := key[p+4:]
				key = strings.TrimSpace(key[:p])
				ps := strings.SplitN(sig, "->", 2)
				for _, x := range strings.Split(ps[0], ",") {
					if x = strings.TrimSpace(x); x != "" {
						params = append(params, x)
					}
				}
				if len(ps) > 1 {
					for _, x := range strings.Split(ps[1], ",") {
						if x = strings.TrimSpace(x); x != "" {
							results = append(results, x)
						}
					}
				}
			}
			label := ""
			if at := strings.Index(key, "@"); at >= 0 {
				// instance contract: "func f @label" verifies f with some parameters bound to concrete values
				label = "@" + strings.TrimSpace(key[at+1:])
				key = strings.TrimSpace(key[:at])
			}
			key = qualifyKey(key, pkgPath)
			base := key
			key += label
			if _, dup := cs.Funcs[key]; dup {
				return fmt.Errorf("%s: duplicate contract for %s", where, key)
			}
			cur = &Contract{Key: key, File: file, Line: i + 1, Loops: map[int]*LoopSpec{}, Props: map[string]bool{},
				Params: params, Results: results, Iface: fields[0] == "iface", Options: map[string]string{}, Base: base}
			if label != "" {
				if cs.Instances == nil {
					cs.Instances = map[string][]string{}
				}
				cs.Instances[base] = append(cs.Instances[base], key)
			}
			cs.Funcs[key] = cur
			cs.Order = append(cs.Order, key)
			continue
		case "typeinv", "typenum", "typeint":
			rest := strings.TrimSpace(strings.TrimPrefix(l, fields[0]))
			c := strings.Index(rest, ":")
			if c < 0 {
				return fmt.Errorf("%s: %s needs 'T: expr'", where, fields[0])
			}
			tn := qualifyType(strings.TrimSpace(rest[:c]), pkgPath)
			cl, err := mkClause("", rest[c+1:])
			if err != nil {
				return fmt.Errorf("%s: %v", where, err)
			}
			ts := cs.Types[tn]
			if ts == nil {
				ts = &TypeSpec{Name: tn}
				cs.Types[tn] = ts
			}
			switch fields[0] {
			case "typeinv":
				ts.Inv = &cl
			case "typeint":
				ts.Int = &cl
			default:
				ts.Num = &cl
			}
			cur = nil
			continue
		case "typeattr":
			// typeattr T: name=expr, name=expr ...: ghost attributes of every value of type T (ghostof(x, "name"))
			rest := strings.TrimSpace(strings.TrimPrefix(l, fields[0]))
			c := strings.Index(rest, ":")
			if c < 0 {
				return fmt.Errorf("%s: typeattr needs 'T: name=expr, ...'", where)
			}
			tn := qualifyType(strings.TrimSpace(rest[:c]), pkgPath)
			ts := cs.Types[tn]
			if ts == nil {
				ts = &TypeSpec{Name: tn}
				cs.Types[tn] = ts
			}
			if ts.Attrs == nil {
				ts.Attrs = map[string]*Clause{}
			}
			for _, kv := range splitTop(rest[c+1:], ",") {
				eq := strings.Index(kv, "=")
				if eq < 0 {
					return fmt.Errorf("%s: typeattr entry %q needs name=expr", where, kv)
				}
				cl, err := mkClause("", kv[eq+1:])
				if err != nil {
					return fmt.Errorf("%s: %v", where, err)
				}
				ts.Attrs[strings.TrimSpace(kv[:eq])] = &cl
			}
			cur = nil
			continue
		case "needs":
			// needs Cnn: the check of property Cnn must load this package as well (it holds implementors of an
			// interface contract that is instantiated on every implementor in the loaded program)
			if len(fields) != 2 || pkgPath == "" {
				return fmt.Errorf("%s: needs PROPERTY (in a package's contract file)", where)
			}
			if cs.PkgNeeds == nil {
				cs.PkgNeeds = map[string][]string{}
			}
			cs.PkgNeeds[fields[1]] = append(cs.PkgNeeds[fields[1]], pkgPath)
			cur = nil
			continue
		case "autoinline":
			if len(fields) != 2 {
				return fmt.Errorf("%s: autoinline PKGPATH", where)
			}
			cs.AutoInline = append(cs.AutoInline, fields[1])
			cur = nil
			continue
		case "ghostvar":
			// ghostvar NAME TYPE: a ghost state variable (initially 0) that contracts may read with ghost("NAME")
			// and list under modifies
			if len(fields) != 3 || (basicTypeByName(fields[2]) == nil && fields[2] != "mathint") {
				return fmt.Errorf("%s: ghostvar NAME INTTYPE", where)
			}
			if cs.GhostVars == nil {
				cs.GhostVars = map[string]string{}
			}
			cs.GhostVars[fields[1]] = fields[2]
			cur = nil
			continue
		case "heapobj":
			// heapobj T Field=ufun ...: pointers to T are references into a read-only heap; the named fields are
			// read as ufun(ref)
			if len(fields) < 2 {
				return fmt.Errorf("%s: heapobj TYPE Field=ufun ...", where)
			}
			if cs.HeapObjs == nil {
				cs.HeapObjs = map[string]map[string]string{}
			}
			m := map[string]string{}
			for _, fv := range fields[2:] {
				kv := strings.SplitN(fv, "=", 2)
				if len(kv) != 2 {
					return fmt.Errorf("%s: heapobj TYPE Field=ufun ...", where)
				}
				m[kv[0]] = kv[1]
			}
			cs.HeapObjs[qualifyType(fields[1], pkgPath)] = m
			cur = nil
			continue
		case "ufun":
			rest := strings.TrimSpace(strings.TrimPrefix(l, "ufun"))
			op := strings.Index(rest, "(")
			cp := strings.Index(rest, ")")
			if op < 0 || cp < op {
				return fmt.Errorf("%s: bad ufun", where)
			}
			uf := &UFun{Name: strings.TrimSpace(rest[:op]), Res: strings.TrimSpace(rest[cp+1:])}
			for _, a := range strings.Split(rest[op+1:cp], ",") {
				if a = strings.TrimSpace(a); a != "" {
					uf.Args = append(uf.Args, a)
				}
			}
			if cs.UFuns == nil {
				cs.UFuns = map[string]*UFun{}
			}
			cs.UFuns[uf.Name] = uf
			cur = nil
			continue
		case "axiom":
			rest := strings.TrimSpace(strings.TrimPrefix(l, "axiom"))
			c := strings.Index(rest, ":")
			if c < 0 {
				return fmt.Errorf("%s: axiom needs 'name: expr'", where)
			}
			e, err := ParseSpecExpr(strings.TrimSpace(rest[c+1:]))
			if err != nil {
				return fmt.Errorf("%s: %v", where, err)
			}
			cs.Axioms = append(cs.Axioms, &Axiom{Name: strings.TrimSpace(rest[:c]), Src: strings.TrimSpace(rest[c+1:]), Expr: e})
			cur = nil
			continue
		case "recfun":
			rest := strings.TrimSpace(strings.TrimPrefix(l, "recfun"))
			eq := strings.Index(rest, "=")
			op := strings.Index(rest, "(")
			cp := strings.Index(rest, ")")
			if eq < 0 || op < 0 || cp < 0 || cp > eq {
				return fmt.Errorf("%s: recfun name(p T, ...) R = body", where)
			}
			rf := &RecFun{Name: strings.TrimSpace(rest[:op]), Result: strings.TrimSpace(rest[cp+1 : eq]), Src: strings.TrimSpace(rest[eq+1:])}
			for _, p := range strings.Split(rest[op+1:cp], ",") {
				pf := strings.Fields(strings.TrimSpace(p))
				if len(pf) != 2 {
					return fmt.Errorf("%s: recfun parameter %q needs a name and a type", where, p)
				}
				rf.Params = append(rf.Params, pf[0])
				rf.PTypes = append(rf.PTypes, pf[1])
			}
			e, err := ParseSpecExpr(rf.Src)
			if err != nil {
				return fmt.Errorf("%s: %v", where, err)
			}
			rf.Expr = e
			cs.RecFuns[rf.Name] = rf
			cur = nil
			continue
		case "spec", "lemma", "absdef":
			// absdef name(a, b) = expr    (abstraction function: the meaning of the uninterpreted function `name` where its
			//                              first argument is a modelled object; elsewhere - a reference into the
			//                              read-only heap - the function stays uninterpreted)
			// spec name(a, b) = expr      (macro)
			// lemma name(a, b) = expr     (macro over integers whose universal closure is proved as an obligation
			//                              `lemma.name` of every contract that instantiates it)
			isLemma := strings.HasPrefix(l, "lemma")
			isAbs := strings.HasPrefix(l, "absdef")
			rest := strings.TrimSpace(strings.TrimPrefix(strings.TrimPrefix(strings.TrimPrefix(l, "spec"), "lemma"), "absdef"))
			eq := strings.Index(rest, "=")
			op := strings.Index(rest, "(")
			cp := strings.Index(rest, ")")
			if eq < 0 || op < 0 || cp < 0 || cp > eq {
				return fmt.Errorf("%s: bad spec function", where)
			}
			sf := &SpecFun{Name: strings.TrimSpace(rest[:op]), Src: strings.TrimSpace(rest[eq+1:])}
			for _, p := range strings.Split(rest[op+1:cp], ",") {
				if p = strings.TrimSpace(p); p != "" {
					pf := strings.Fields(p)
					sf.Params = append(sf.Params, pf[0])
					if len(pf) > 1 {
						sf.PTypes = append(sf.PTypes, pf[1])
					} else {
						sf.PTypes = append(sf.PTypes, "")
					}
				}
			}
			e, err := ParseSpecExpr(sf.Src)
			if err != nil {
				return fmt.Errorf("%s: %v", where, err)
			}
			sf.Expr = e
			sf.Lemma = isLemma
			sf.Pkg = pkgPath
			if isAbs {
				cs.SpecFuns["abs:"+sf.Name] = sf
			} else {
				cs.SpecFuns[sf.Name] = sf
			}
			cur = nil
			continue
		}
		if cur == nil {
			return fmt.Errorf("%s: clause %q outside a func block", where, l)
		}
		m := tagRe.FindStringSubmatch(l)
		if m == nil {
			return fmt.Errorf("%s: cannot parse %q", where, l)
		}
		kw, tags, rest := m[1], m[2], strings.TrimSpace(m[3])
		var err error
		switch kw {
		case "mode":
			cur.Mode = rest
		case "requires":
			var c Clause
			c, err = mkClause(tags, rest)
			cur.Requires = append(cur.Requires, c)
		case "ghost":
			// ghost NAME TYPE: a universally quantified specification variable (not a program variable)
			f := strings.Fields(rest)
			if len(f) != 2 {
				return fmt.Errorf("%s: ghost NAME TYPE", where)
			}
			cur.Ghosts = append(cur.Ghosts, [2]string{f[0], f[1]})
		case "callghost":
			// callghost CALLEE.G = EXPR: at calls of CALLEE (short function name) made by this function, the callee's
			// ghost G (which its preconditions constrain) is instantiated with EXPR, evaluated over this function's
			// parameters at entry; the callee's preconditions are then proved for that instance
			eq := strings.Index(rest, "=")
			if eq < 0 {
				return fmt.Errorf("%s: callghost CALLEE.G = EXPR", where)
			}
			var e ast.Expr
			e, err = ParseSpecExpr(strings.TrimSpace(rest[eq+1:]))
			cur.CallGhosts = append(cur.CallGhosts, LetDef{Name: strings.TrimSpace(rest[:eq]), Src: rest[eq+1:], Expr: e})
		case "casesplit", "casesplitpost":
			// casesplit E1 | E2 | ...: every ensures obligation is proved once per case and once for "none of them"
			// (casesplitpost: the cases are evaluated in the exit state)
			for _, part := range splitTop(rest, "|") {
				if strings.TrimSpace(part) == "" {
					continue
				}
				var c Clause
				c, err = mkClause(tags, part)
				if err != nil {
					break
				}
				if kw == "casesplitpost" {
					cur.CasesPost = append(cur.CasesPost, c)
				} else {
					cur.Cases = append(cur.Cases, c)
				}
			}
		case "assume":
			// instance of an assumed lemma, evaluated at entry (trusted; listed in the evidence)
			var c Clause
			c, err = mkClause(tags, rest)
			cur.Assume = append(cur.Assume, c)
		case "assumepost":
			// instance of an assumed lemma, evaluated at every normal exit
			var c Clause
			c, err = mkClause(tags, rest)
			cur.AssumePost = append(cur.AssumePost, c)
		case "ensures":
			var c Clause
			c, err = mkClause(tags, rest)
			cur.Ensures = append(cur.Ensures, c)
		case "trustensures":
			// a postcondition callers may rely on but that is NOT proved of the body (listed as an assumption); the
			// function's other obligations (safety, frames, loop invariants, the proved ensures) are generated as usual
			var c Clause
			c, err = mkClause(tags, rest)
			cur.TrustEnsures = append(cur.TrustEnsures, c)
		case "bind":
			eq := strings.Index(rest, "=")
			if eq < 0 {
				return fmt.Errorf("%s: bind needs '='", where)
			}
			var e ast.Expr
			e, err = ParseSpecExpr(strings.TrimSpace(rest[eq+1:]))
			cur.Binds = append(cur.Binds, LetDef{Name: strings.TrimSpace(rest[:eq]), Src: rest[eq+1:], Expr: e})
		case "let", "letpost":
			eq := strings.Index(rest, "=")
			if eq < 0 {
				return fmt.Errorf("%s: let needs '='", where)
			}
			var e ast.Expr
			e, err = ParseSpecExpr(strings.TrimSpace(rest[eq+1:]))
			cur.Lets = append(cur.Lets, LetDef{Name: strings.TrimSpace(rest[:eq]), Src: rest[eq+1:], Expr: e, Post: kw == "letpost"})
		case "fails":
			// fails COND => K1|K2
			arrow := strings.LastIndex(rest, "=>")
			if arrow < 0 || (arrow > 0 && rest[arrow-1] == '=') {
				return fmt.Errorf("%s: fails needs 'COND => Kinds'", where)
			}
			var c Clause
			c, err = mkClause(tags, rest[:arrow])
			for _, k := range strings.Split(rest[arrow+2:], "|") {
				c.Kinds = append(c.Kinds, strings.TrimSpace(k))
			}
			cur.Fails = append(cur.Fails, c)
		case "nofail":
			cur.NoFail = true
		case "env":
			cur.Env = append(cur.Env, strings.Fields(strings.ReplaceAll(rest, ",", " "))...)
		case "modifies":
			for _, p := range splitTop(rest, ",") {
				var c Clause
				c, err = mkClause(tags, p)
				if err != nil {
					break
				}
				cur.Modifies = append(cur.Modifies, c)
			}
		case "assumed":
			cur.Assumed = true
		case "inline":
			cur.Inline = true
		case "pure":
			cur.Pure = true
		case "arith":
			cur.Arith = true
		case "canary":
			cur.Canary = true
		case "props":
			for _, p := range strings.Fields(strings.ReplaceAll(rest, ",", " ")) {
				cur.Props[p] = true
			}
		case "replay":
			cur.Replay = rest
		case "bounded":
			cur.Bounded = rest
		case "option":
			kv := strings.SplitN(rest, "=", 2)
			if len(kv) == 2 {
				cur.Options[strings.TrimSpace(kv[0])] = strings.TrimSpace(kv[1])
			} else {
				cur.Options[rest] = "true"
			}
		case "loop":
			f := strings.Fields(rest)
			if len(f) < 3 {
				return fmt.Errorf("%s: bad loop clause", where)
			}
			n, e2 := strconv.Atoi(f[0])
			if e2 != nil {
				return fmt.Errorf("%s: loop ordinal: %v", where, e2)
			}
			ls := cur.Loops[n]
			if ls == nil {
				ls = &LoopSpec{}
				cur.Loops[n] = ls
			}
			body := strings.TrimSpace(strings.TrimPrefix(strings.TrimSpace(strings.TrimPrefix(rest, f[0])), f[1]))
			switch f[1] {
			case "invariant":
				var c Clause
				c, err = mkClause(tags, body)
				ls.Invariants = append(ls.Invariants, c)
			case "unroll":
				ls.Unroll, err = strconv.Atoi(body)
			default:
				return fmt.Errorf("%s: unknown loop clause %q", where, f[1])
			}
		default:
			return fmt.Errorf("%s: unknown clause keyword %q", where, kw)
		}
		if err != nil {
			return fmt.Errorf("%s: %v", where, err)
		}
	}
	return nil
}

// qualifyKey turns "(Int8Value).Plus" into "github.com/onflow/cadence/interpreter.(Int8Value).Plus" style
// canonical keys matching funcKey().
func qualifyKey(key, pkgPath string) string {
	key = strings.TrimSpace(key)
	if pkgPath == "" || strings.Contains(key, "/") {
		return key
	}
	if strings.HasPrefix(key, "(") {
		// method: (T).m or (*T).m
		cl := strings.Index(key, ")")
		recv := key[1:cl]
		ptr := ""
		if strings.HasPrefix(recv, "*") {
			ptr = "*"
			recv = recv[1:]
		}
		if !strings.Contains(recv, ".") {
			recv = pkgPath + "." + recv
		}
		return "(" + ptr + recv + ")" + key[cl+1:]
	}
	if strings.Contains(key, ".") && !strings.HasPrefix(key, ".") {
		// Iface.method (iface contracts) or already qualified pkg.func
		parts := strings.SplitN(key, ".", 2)
		if isUpperFirst(parts[0]) || true {
			// type-qualified (interface method): pkgPath.Type.method
			return pkgPath + "." + key
		}
	}
	return pkgPath + "." + key
}

func isUpperFirst(s string) bool { return s != "" && s[0] >= 'A' && s[0] <= 'Z' }

func qualifyType(t, pkgPath string) string {
	if strings.Contains(t, "/") || strings.Contains(t, ".") || pkgPath == "" {
		return t
	}
	return pkgPath + "." + t
}
