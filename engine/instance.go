package engine

import (
	"fmt"
	"go/types"
	"strings"
)

// Instance contracts. `//@ func f @label` with `bind p = expr` clauses is a contract of f for the calls in
// which parameter p has the concrete value of expr (typically a package-level pointer such as sema.UInt8Type:
// code that switches on pointer identity is then verified once per case, with the pointee's fields read from
// the real initialisers). At a call site the instance is chosen by comparing the concrete argument with the
// bound values; a call whose argument matches no instance is rejected, never guessed.

// boxIfNeeded wraps a concrete value of static type vt into an interface value when the target type is one.
func (ex *Exec) boxIfNeeded(v Val, vt types.Type, target types.Type) Val {
	if _, isIface := target.Underlying().(*types.Interface); !isIface {
		return v
	}
	if _, already := v.(IfaceV); already {
		return v
	}
	if vt == nil {
		ex.reject("bind: cannot box a value of unknown type into %s", target)
	}
	if pv, ok := v.(PtrV); ok && pv.K == PNil {
		return IfaceV{Kind: IntC(0)}
	}
	return IfaceV{Kind: IntC(int64(ex.P.TypeTag(vt))), Conc: vt, Payload: v}
}

// sameConcrete decides, when it can, whether two values are the same concrete value.
func sameConcrete(a, b Val) (same bool, known bool) {
	switch x := a.(type) {
	case IfaceV:
		y, ok := b.(IfaceV)
		if !ok {
			return false, false
		}
		xnil := x.Conc == nil && x.Sym == nil
		ynil := y.Conc == nil && y.Sym == nil
		if xnil || ynil {
			if xnil && ynil {
				return true, true
			}
			if x.Sym != nil || y.Sym != nil {
				return false, false
			}
			return false, true
		}
		if x.Conc == nil || y.Conc == nil {
			return false, false
		}
		if !types.Identical(x.Conc, y.Conc) {
			return false, true
		}
		return sameConcrete(x.Payload, y.Payload)
	case PtrV:
		y, ok := b.(PtrV)
		if !ok {
			return false, false
		}
		if x.K == PNil && y.K == PNil {
			return true, true
		}
		if x.K == PNil || y.K == PNil {
			return false, x.K == PCell || y.K == PCell
		}
		if x.K == PCell && y.K == PCell {
			return x.Cell == y.Cell && fmt.Sprint(x.Path) == fmt.Sprint(y.Path), true
		}
	case Scalar:
		y, ok := b.(Scalar)
		if ok && x.T.IsConst() && y.T.IsConst() {
			return x.T.Val.Cmp(y.T.Val) == 0, true
		}
	}
	return false, false
}

// resolveInstance picks the instance contract of key whose bound parameters equal the concrete arguments.
func (ex *Exec) resolveInstance(st *State, key string, names []string, args []Val, pkg *types.Package) (*Contract, string) {
	insts := ex.P.CS.Instances[key]
	if len(insts) == 0 {
		return nil, ""
	}
	var found *Contract
	var fkey string
	for _, ik := range insts {
		c := ex.P.CS.Funcs[ik]
		match := true
		for _, b := range c.Binds {
			idx := -1
			for i, n := range names {
				if n == b.Name {
					idx = i
				}
			}
			if idx < 0 || idx >= len(args) {
				match = false
				break
			}
			env := &SpecEnv{ex: ex, st: st, vars: map[string]Val{}, pkg: pkg, contract: c}
			bv, bt := env.eval(b.Expr)
			arg := args[idx]
			if u, isU := bv.(UConst); isU {
				if as, isS := arg.(Scalar); isS {
					if as.T.S.K == SBV {
						bv = Scalar{BVC(u.V, as.T.S.W)}
					} else {
						bv = Scalar{IntBig(u.V)}
					}
				}
			}
			if _, isI := arg.(IfaceV); isI {
				if _, bI := bv.(IfaceV); !bI && bt != nil {
					if pv, ok := bv.(PtrV); ok && pv.K == PNil {
						bv = IfaceV{Kind: IntC(0)}
					} else {
						bv = IfaceV{Kind: IntC(int64(ex.P.TypeTag(bt))), Conc: bt, Payload: bv}
					}
				}
			}
			same, known := sameConcrete(arg, bv)
			if !known {
				ex.reject("call of %s: argument %s is not concrete enough to choose among the instance contracts", key, b.Name)
			}
			if !same {
				match = false
				break
			}
		}
		if match {
			if found != nil {
				ex.reject("call of %s matches two instance contracts (%s, %s)", key, fkey, ik)
			}
			found, fkey = c, ik
		}
	}
	if found == nil {
		ex.reject("call of %s: no instance contract matches the arguments", key)
	}
	return found, fkey
}

// autoInlinePkg: contract-less functions of the repository, and of the dependency packages named by an
// `autoinline <pkgpath>` directive, are executed in place (their bodies become part of the caller's proof).
func (ex *Exec) autoInlinePkg(path string) bool {
	if len(path) >= len(cadenceMod) && path[:len(cadenceMod)] == cadenceMod {
		return true
	}
	for _, p := range ex.P.CS.AutoInline {
		if p == path {
			return true
		}
	}
	return false
}

// boundArgExpr: Go source of the argument for a parameter that an instance contract binds (`bind p = pkg.Var`),
// as written inside package ownPkg; "" when the parameter is not bound.
func boundArgExpr(c *Contract, param, ownPkg string) string {
	for _, b := range c.Binds {
		if b.Name == param {
			src := strings.TrimSpace(b.Src)
			if strings.HasPrefix(src, ownPkg+".") {
				src = strings.TrimPrefix(src, ownPkg+".")
			}
			return src
		}
	}
	return ""
}

// boundArgImport: the package a qualified bind expression (pkg.Var) refers to, for the replay harness's imports.
func (p *Program) boundArgImport(be string) (path, name string) {
	i := strings.Index(be, ".")
	if i <= 0 {
		return "", ""
	}
	name = be[:i]
	for _, sp := range p.Prog.AllPackages() {
		if sp.Pkg.Name() == name && strings.HasPrefix(sp.Pkg.Path(), cadenceMod) {
			return sp.Pkg.Path(), name
		}
	}
	return "", ""
}
