package engine

import (
	"fmt"
	"go/types"
	"math/big"
	"runtime/debug"
	"sort"
	"strings"
)

// verifyTheorem: a standalone lemma `theorem[Cnn] name(params) = formula`. Its single obligation is the universal
// closure of the formula over the parameter types (machine types range over all their values; untyped
// parameters over the mathematical integers). No assumption of any contract takes part.
func (p *Program) verifyTheorem(c *Contract) (res *FuncResult) {
	res = &FuncResult{Key: c.Key, Contract: c}
	sf := c.Theorem
	ex := &Exec{P: p, Mode: modeOf(c), C: c, Funs: map[string]string{}, MaxStep: 1000,
		siteCnt: map[string]int{}, Inlined: map[string]bool{}, UsedContracts: map[string]bool{}, UsedAssumed: map[string]bool{}}
	res.Exec = ex
	CurDefs = map[string]*Term{}
	SymRanges = map[string][2]*big.Int{}
	ex.SymRangesMap = SymRanges
	defer func() {
		if r := recover(); r != nil {
			if re, ok := r.(rejectErr); ok {
				res.Rejected = re.msg
				return
			}
			res.Rejected = fmt.Sprintf("internal error: %v\n%s", r, debug.Stack())
		}
	}()
	st := &State{Cells: map[*Cell]Val{}, Mem: map[*Region]*Term{}, Maps: map[*Cell]*MapState{}, Ghost: map[string]*Term{}}
	st.Big = Sym("heap0", ArraySort(IntSort, IntSort))
	lv := map[string]Val{}
	lt := map[string]types.Type{}
	var syms []string
	var hyps []*Term
	for pi, prm := range sf.Params {
		nm := "th_" + sf.Name + "_" + prm
		syms = append(syms, nm)
		if pi < len(sf.PTypes) && sf.PTypes[pi] != "" {
			gt := basicTypeByName(sf.PTypes[pi])
			if gt == nil {
				res.Rejected = "theorem parameter " + prm + ": unsupported type " + sf.PTypes[pi]
				return
			}
			x := Sym(nm, ex.intSort(gt))
			lv[prm] = Scalar{x}
			lt[prm] = gt
			if ex.Mode != ModeBV {
				hyps = append(hyps, ex.rangeFact(x, gt))
			}
			continue
		}
		lv[prm] = Scalar{Sym(nm, IntSort)}
		lt[prm] = types.Typ[types.UntypedInt]
	}
	var pkg *types.Package
	pkgPath := c.Key[:strings.Index(c.Key, ".theorem.")]
	for _, sp := range p.Prog.AllPackages() {
		if sp.Pkg.Path() == pkgPath {
			pkg = sp.Pkg
		}
	}
	env := &SpecEnv{ex: ex, st: st, vars: lv, vtypes: lt, pkg: pkg, contract: c}
	body := env.termBool(sf.Expr)
	q := &Query{Defs: ex.Defs, GetVals: syms, Logic: "ALL"}
	var fnames []string
	for fnn := range ex.Funs {
		fnames = append(fnames, fnn)
	}
	sort.Strings(fnames)
	for _, fnn := range fnames {
		q.Funs = append(q.Funs, ex.Funs[fnn])
	}
	// values of package-level variables read from the real initialisers (facts about the program, not contract
	// assumptions: a theorem may speak about constants such as sema.Int8Type's range)
	q.Asserts = append(append(append([]*Term{}, ex.Assumes...), hyps...), Not(body))
	if ex.Mode == ModeBV && len(ex.Funs) == 0 && len(ex.Assumes) == 0 {
		q.Logic = "QF_BV"
	}
	var tags []string
	for t := range c.Props {
		tags = append(tags, t)
	}
	sort.Strings(tags)
	var decl []string
	for i, prm := range sf.Params {
		if i < len(sf.PTypes) && sf.PTypes[i] != "" {
			decl = append(decl, prm+" "+sf.PTypes[i])
		} else {
			decl = append(decl, prm)
		}
	}
	o := &Obligation{Func: c.Key, Short: "theorem", Name: c.Key + "#theorem", Tags: tags, Expect: "unsat", Query: q,
		Mode: modeName(c), Inputs: syms, Clause: "for all " + strings.Join(decl, ", ") + ": " + sf.Src, Contract: c}
	res.Obligations = append(res.Obligations, o)
	return
}
