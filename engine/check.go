package engine

import (
	"crypto/sha256"
	"encoding/json"
	"flag"
	"fmt"
	"os"
	"path/filepath"
	"regexp"
	"sort"
	"strconv"
	"strings"
	"sync"
	"time"
)

type OblResult struct {
	O       *Obligation
	Ans     SolverAnswer
	OK      bool
	Elapsed float64
}

type Baseline struct {
	Property    string   `json:"property"`
	Obligations []string `json:"obligations"` // names expected to discharge (unsat)
	Probes      []string `json:"probes"`      // probes expected sat
	DeadClauses []string `json:"dead_clauses"`
}

type KnownFinding struct {
	Property   string `json:"property"`
	Obligation string `json:"obligation"`
	Input      string `json:"input"`
	What       string `json:"what"`
	Status     string `json:"status"` // "known" or "fixed"
	Commit     string `json:"commit,omitempty"`
	GoCall     string `json:"go_call,omitempty"`
	Model      map[string]string `json:"model,omitempty"`
	Decls      []string `json:"harness_decls,omitempty"`
	Imports    map[string]string `json:"harness_imports,omitempty"`
}

type CheckOpts struct {
	Prop     string
	Tier     string
	Seed     int
	Timeout  time.Duration
	Workers  int
	UpdateBaseline bool
	Overlay  map[string][]byte
	Quiet    bool
	NoReplay bool
}

type CheckReport struct {
	Prop        string
	Results     []*OblResult
	FuncResults []*FuncResult
	Violations  []string
	Known       []string
	ExitCode    int
	Wall        float64
	Evidence    map[string]any
	Lines       []string
}

func propsOfContract(c *Contract) map[string]bool {
	m := map[string]bool{}
	for p := range c.Props {
		m[p] = true
	}
	add := func(cl []Clause) {
		for _, x := range cl {
			if x.Src == "true" {
				continue // schema slot left empty for this type
			}
			for _, t := range x.Tags {
				m[t] = true
			}
		}
	}
	add(c.Requires)
	add(c.Ensures)
	add(c.Fails)
	for _, l := range c.Loops {
		add(l.Invariants)
	}
	return m
}

func pkgPatternOf(key string) string {
	// key: (pkg.T).m | (*pkg.T).m | pkg.f
	k := key
	if strings.HasPrefix(k, "(") {
		k = k[1:strings.Index(k, ")")]
		k = strings.TrimPrefix(k, "*")
	}
	// the package path ends at the first dot after the last slash (keys of interface contracts have two
	// more components: pkg.Iface.method)
	sl := strings.LastIndex(k, "/")
	i := strings.Index(k[sl+1:], ".")
	if i < 0 {
		return ""
	}
	pk := k[:sl+1+i]
	if !strings.HasPrefix(pk, cadenceMod) {
		return ""
	}
	rel := strings.TrimPrefix(strings.TrimPrefix(pk, cadenceMod), "/")
	if rel == "" {
		return "."
	}
	return "./" + rel
}

func cmdCheck(args []string) int {
	fs := flag.NewFlagSet("check", flag.ExitOnError)
	tier := fs.String("tier", envOr("VERIF_TIER", "quick"), "quick|thorough")
	upd := fs.Bool("update-baseline", false, "rewrite the baseline from this run (only on the unchanged tree!)")
	timeout := fs.Int("timeout", 0, "per-obligation timeout in seconds (default 20 quick / 120 thorough)")
	fs.Parse(reorderFlags(args))
	if fs.NArg() < 1 {
		fmt.Fprintln(os.Stderr, "usage: cverif check <property> [--tier quick|thorough]")
		return 2
	}
	seed, _ := strconv.Atoi(envOr("VERIF_SEED", "0"))
	rc := 0
	for _, prop := range fs.Args() {
		workers, _ := strconv.Atoi(envOr("VERIF_WORKERS", "16"))
		opts := CheckOpts{Prop: prop, Tier: *tier, Seed: seed, Workers: workers, UpdateBaseline: *upd}
		if *timeout > 0 {
			opts.Timeout = time.Duration(*timeout) * time.Second
		}
		rep := RunCheck(opts)
		for _, l := range rep.Lines {
			fmt.Println(l)
		}
		if rep.ExitCode != 0 {
			rc = rep.ExitCode
		}
	}
	return rc
}

// reorderFlags lets flags follow positional args
func reorderFlags(args []string) []string {
	var flags, pos []string
	for i := 0; i < len(args); i++ {
		a := args[i]
		if strings.HasPrefix(a, "-") {
			flags = append(flags, a)
			if !strings.Contains(a, "=") && i+1 < len(args) && !strings.HasPrefix(args[i+1], "-") && a != "--update-baseline" && a != "-update-baseline" {
				flags = append(flags, args[i+1])
				i++
			}
		} else {
			pos = append(pos, a)
		}
	}
	return append(flags, pos...)
}

func envOr(k, d string) string {
	if v := os.Getenv(k); v != "" {
		return v
	}
	return d
}

func loadBaseline(prop string) *Baseline {
	b := &Baseline{Property: prop}
	data, err := os.ReadFile(filepath.Join(VerifDir, "baseline", prop+".json"))
	if err != nil {
		return b
	}
	json.Unmarshal(data, b)
	return b
}

func loadKnown() []KnownFinding {
	var k []KnownFinding
	data, err := os.ReadFile(filepath.Join(VerifDir, "known_findings.json"))
	if err != nil {
		return nil
	}
	json.Unmarshal(data, &k)
	return k
}

// RunCheck runs all obligations of a property against the current working tree.
func RunCheck(opts CheckOpts) *CheckReport {
	t0 := time.Now()
	rep := &CheckReport{Prop: opts.Prop}
	say := func(format string, a ...any) { rep.Lines = append(rep.Lines, fmt.Sprintf(format, a...)) }
	if opts.Timeout == 0 {
		if opts.Tier == "thorough" {
			opts.Timeout = 120 * time.Second
		} else {
			// obligations of the unchanged tree are decided in well under 10 s on an idle machine (the slowest are
			// listed in the evidence); the margin is for a loaded one. A refuted obligation answers at once, so the
			// limit only bounds what an undecided one costs.
			opts.Timeout = 60 * time.Second
		}
	}
	fail := func(format string, a ...any) *CheckReport {
		say("ERROR: "+format, a...)
		rep.ExitCode = 2
		return rep
	}
	if gen, gerr := overlayFor(opts.Prop, repoDir()); gerr != nil {
		return fail("harness generation: %v", gerr)
	} else if len(gen) > 0 {
		merged := map[string][]byte{}
		for k, v := range opts.Overlay {
			merged[k] = v
		}
		for k, v := range gen {
			merged[k] = v
		}
		opts.Overlay = merged
	}
	cs, err := LoadContracts(repoDir(), filepath.Join(VerifDir, "contracts/schemas"), filepath.Join(VerifDir, "contracts/stdlib"), opts.Overlay)
	if err != nil {
		return fail("contracts: %v", err)
	}
	// functions of the property
	var keys []string
	patterns := map[string]bool{}
	for _, k := range cs.Order {
		c := cs.Funcs[k]
		if c.Assumed || c.Iface || strings.HasPrefix(k, "*.") {
			continue
		}
		if propsOfContract(c)[opts.Prop] {
			keys = append(keys, k)
		}
	}
	if len(keys) == 0 {
		return fail("no function under contract for property %s", opts.Prop)
	}
	for _, k := range cs.Order {
		if p := pkgPatternOf(k); p != "" && !cs.Funcs[k].Assumed {
			_ = p
		}
	}
	for _, k := range keys {
		if p := pkgPatternOf(k); p != "" {
			patterns[p] = true
		}
	}
	for _, pp := range cs.PkgNeeds[opts.Prop] {
		rel := strings.TrimPrefix(strings.TrimPrefix(pp, cadenceMod), "/")
		if rel == "" {
			patterns["."] = true
		} else {
			patterns["./"+rel] = true
		}
	}
	// always load the packages of all contract files that the property's functions may call into
	var pats []string
	for p := range patterns {
		pats = append(pats, p)
	}
	sort.Strings(pats)
	prog, err := LoadProgram(repoDir(), pats, opts.Overlay)
	if err != nil {
		// a tree that does not build cannot be verified: every baseline obligation is undischarged
		say("ERROR: load: %v", err)
		rep.ExitCode = 2
		return rep
	}
	prog.CS = cs
	if err := prog.LoadConsts(); err != nil {
		return fail("consts: %v", err)
	}
	// interface contracts become the contracts of their implementors' methods
	for _, k := range cs.ExpandIfaceContracts(prog) {
		if propsOfContract(cs.Funcs[k])[opts.Prop] {
			keys = append(keys, k)
		}
	}
	loadS := time.Since(t0).Seconds()

	work := filepath.Join(VerifDir, ".work", fmt.Sprintf("%s-%d", opts.Prop, os.Getpid()))
	os.MkdirAll(work, 0o755)
	if os.Getenv("VERIF_DEBUG_REPLAY") == "" {
		defer os.RemoveAll(work)
	}

	// generate obligations (worklist: verified callees join the property)
	done := map[string]bool{}
	var frs []*FuncResult
	var obls []*Obligation
	queue := append([]string{}, keys...)
	for len(queue) > 0 {
		k := queue[0]
		queue = queue[1:]
		if done[k] {
			continue
		}
		done[k] = true
		c := cs.Funcs[k]
		if c == nil || c.Assumed || c.Iface || (c.Inline && len(c.Ensures) == 0 && len(c.Fails) == 0 && !c.NoFail) {
			continue
		}
		fr := prog.VerifyFunc(c)
		frs = append(frs, fr)
		for _, o := range fr.Obligations {
			if hasTag(o.Tags, opts.Prop) {
				obls = append(obls, o)
			}
		}
		for _, u := range fr.UsedVerified {
			if !done[u] {
				queue = append(queue, u)
			}
		}
	}
	rep.FuncResults = frs
	genS := time.Since(t0).Seconds() - loadS
	if os.Getenv("VERIF_VERBOSE") != "" {
		fmt.Fprintf(os.Stderr, "load %.1fs vcgen %.1fs obligations %d\n", loadS, genS, len(obls))
	}

	// known findings first: if the recorded failing input of a known finding still fails on the real code, its
	// obligation is reported as KNOWN-FINDING without being solved again (any other obligation is solved as usual)
	knownPre := loadKnown()
	var preKnownLines []string
	nPreKnown := 0
	if !opts.NoReplay {
		var keep []*Obligation
		for _, o := range obls {
			skip := false
			for _, k := range knownPre {
				if k.Status == "known" && k.Property == opts.Prop && k.Obligation == o.Name && !o.Probe {
					if prog.KnownInputStillFails(opts, k, nil, frs, work) {
						skip = true
						preKnownLines = append(preKnownLines, fmt.Sprintf("KNOWN-FINDING: property=%s %s: %s [input: %s]", opts.Prop, k.Obligation, k.What, truncate(k.Input, 160)))
					}
				}
			}
			if skip {
				nPreKnown++
			} else {
				keep = append(keep, o)
			}
		}
		obls = keep
	}

	// solve in parallel
	results := make([]*OblResult, len(obls))
	var wg sync.WaitGroup
	sem := make(chan struct{}, opts.Workers)
	for i, o := range obls {
		wg.Add(1)
		go func(i int, o *Obligation) {
			defer wg.Done()
			sem <- struct{}{}
			defer func() { <-sem }()
			t := time.Now()
			to := opts.Timeout
			if o.Probe && opts.Tier != "thorough" && to > 6*time.Second {
				// vacuity probes decide nothing by themselves: an undecided probe is recorded, not reported
				to = 6 * time.Second
			}
			if !o.Probe && o.MinTimeout > to {
				to = o.MinTimeout
			}
			ans := Solve(o.Query, o.Name, SolverCfg{Timeout: to, Seed: opts.Seed, WorkDir: work, All: opts.Tier == "thorough", Order: o.Order})
			if o.Expect == "unsat" && ans.Result == "sat" && len(o.Refine) > 0 {
				// counterexample refinement: re-solve with the exact facts that were abstracted for the proof
				q2 := *o.Query
				q2.Asserts = append(append([]*Term{}, o.Query.Asserts...), o.Refine...)
				a2 := Solve(&q2, o.Name+".refined", SolverCfg{Timeout: opts.Timeout, Seed: opts.Seed, WorkDir: work})
				if a2.Result == "unsat" || a2.Result == "sat" {
					a2.TimeS += ans.TimeS
					ans = a2
				}
			}
			ans = preferSmall(o, ans, opts, work)
			results[i] = &OblResult{O: o, Ans: ans, OK: ans.Result == o.Expect, Elapsed: time.Since(t).Seconds()}
		}(i, o)
	}
	wg.Wait()
	rep.Results = results
	if os.Getenv("VERIF_VERBOSE") != "" {
		fmt.Fprintf(os.Stderr, "solve phase done at %.1fs\n", time.Since(t0).Seconds())
		type st struct {
			n string
			t float64
		}
		var sl []st
		for _, r := range results {
			sl = append(sl, st{r.O.Name + " " + r.Ans.Result + " " + r.Ans.Solver, r.Elapsed})
		}
		sort.Slice(sl, func(i, j int) bool { return sl[i].t > sl[j].t })
		for i := 0; i < 8 && i < len(sl); i++ {
			fmt.Fprintf(os.Stderr, "  slow: %.2fs %s\n", sl[i].t, sl[i].n)
		}
	}

	base := loadBaseline(opts.Prop)
	baseSet := map[string]bool{}
	for _, n := range base.Obligations {
		baseSet[n] = true
	}
	probeSet := map[string]bool{}
	for _, n := range base.Probes {
		probeSet[n] = true
	}
	known := loadKnown()

	// classify
	var nProof, nDischarged, nProbe, nProbeOK, nBounded, nBoundedOK int
	boundedFuncs := map[string]string{}
	byBackend := map[string]int{}
	byMode := map[string]int{}
	var solverTime, maxTime float64
	type slowObl struct {
		Obligation string  `json:"obligation"`
		Seconds    float64 `json:"seconds"`
		Solver     string  `json:"solver"`
	}
	var slowest []slowObl
	var dead []string
	type viol struct {
		name, kind, detail string
		res               *OblResult
	}
	var viols []viol
	seenNames := map[string]bool{}
	for _, r := range results {
		seenNames[r.O.Name] = true
		solverTime += r.Ans.TimeS
		if r.Ans.TimeS > maxTime {
			maxTime = r.Ans.TimeS
		}
		if r.Ans.TimeS >= 2 && !r.O.Probe {
			slowest = append(slowest, slowObl{r.O.Name, round3(r.Ans.TimeS), r.Ans.Solver})
		}
		if r.O.Probe {
			nProbe++
			if r.OK {
				nProbeOK++
				continue
			}
			if (strings.Contains(r.O.Short, "cover.fails") || strings.Contains(r.O.Short, "cover.post")) && r.Ans.Result == "unsat" {
				dead = append(dead, r.O.Name)
				continue
			}
			if r.Ans.Result == "unsat" {
				viols = append(viols, viol{r.O.Name, "vacuous", "probe expected sat, got unsat: the function can no longer " + r.O.Clause, r})
			} else if probeSet[r.O.Name] || opts.UpdateBaseline {
				// probe undecided: not a proof obligation; record only
				dead = append(dead, r.O.Name+" (undecided: "+r.Ans.Result+")")
			}
			continue
		}
		if r.O.Bounded != "" {
			// bounded stand-ins are checked (a failure is still reported) but never counted as proved
			nBounded++
			boundedFuncs[r.O.Func] = r.O.Bounded
			if r.OK {
				nBoundedOK++
				continue
			}
		} else {
			nProof++
			if r.OK {
				nDischarged++
				byBackend[r.Ans.Solver]++
				byMode[r.O.Mode]++
				continue
			}
		}
		if r.Ans.Result == "sat" {
			viols = append(viols, viol{r.O.Name, "counterexample", "", r})
		} else if r.Ans.Result == "disagree" {
			viols = append(viols, viol{r.O.Name, "solver-disagreement", r.Ans.Raw, r})
		} else {
			viols = append(viols, viol{r.O.Name, "undischarged", r.Ans.Result, r})
		}
	}
	for _, fr := range frs {
		if fr.Rejected != "" {
			viols = append(viols, viol{fr.Key + "#*", "rejected", fr.Rejected, nil})
		}
	}
	// baseline obligations that no longer exist (contract removed / function gone)
	var missing []string
	// clause-level stems: post.3.g7.c2 -> post.3 (path-group / case numbering may change with harmless edits)
	stem := func(n string) string {
		return stemRe.ReplaceAllString(n, "")
	}
	seenStems := map[string]bool{}
	for n := range seenNames {
		seenStems[stem(n)] = true
	}
	reported := map[string]bool{}
	for _, n := range base.Obligations {
		if !seenNames[n] {
			if seenStems[stem(n)] || reported[stem(n)] {
				continue
			}
			reported[stem(n)] = true
			short := n[strings.LastIndex(n, "#")+1:]
			if strings.HasPrefix(short, "post.") || strings.HasPrefix(short, "fails.") || strings.HasPrefix(short, "lemma.") || strings.HasPrefix(short, "loop.") {
				fnRejected := false
				for _, fr := range frs {
					if fr.Rejected != "" && strings.HasPrefix(n, fr.Key+"#") {
						fnRejected = true
					}
				}
				if !fnRejected {
					missing = append(missing, n)
				}
			}
		}
	}
	for _, m := range missing {
		viols = append(viols, viol{m, "missing", "obligation listed in the baseline was not generated (contract or function removed)", nil})
	}

	nRejectedFns := 0
	for _, fr := range frs {
		if fr.Rejected != "" {
			nRejectedFns++
		}
	}
	if opts.UpdateBaseline && nRejectedFns > 0 && os.Getenv("VERIF_BASELINE_FORCE") == "" {
		// a rejected function has no obligations at all: rewriting the baseline now would silently drop them
		say("baseline for %s NOT rewritten: %d function(s) are rejected (set VERIF_BASELINE_FORCE=1 to override)", opts.Prop, nRejectedFns)
	} else if opts.UpdateBaseline {
		nb := &Baseline{Property: opts.Prop}
		for _, r := range results {
			if r.O.Probe {
				if r.OK {
					nb.Probes = append(nb.Probes, r.O.Name)
				}
			} else if r.OK {
				nb.Obligations = append(nb.Obligations, r.O.Name)
			}
		}
		nb.DeadClauses = dead
		sort.Strings(nb.Obligations)
		sort.Strings(nb.Probes)
		os.MkdirAll(filepath.Join(VerifDir, "baseline"), 0o755)
		data, _ := json.MarshalIndent(nb, "", " ")
		os.WriteFile(filepath.Join(VerifDir, "baseline", opts.Prop+".json"), data, 0o644)
		say("baseline for %s rewritten: %d obligations, %d probes", opts.Prop, len(nb.Obligations), len(nb.Probes))
	}

	// report violations (replay where there is a model)
	os.MkdirAll(filepath.Join(VerifDir, "replay", "out"), 0o755)
	nviol := 0
	var knownLines []string
	for _, v := range viols {
		rf := filepath.Join(VerifDir, "replay", "out", sanitizeFile(opts.Prop+"__"+v.name)+".json")
		info := map[string]any{"property": opts.Prop, "obligation": v.name, "kind": v.kind, "detail": v.detail}
		confirmed := false
		inputDesc := ""
		if v.res != nil {
			info["function"] = v.res.O.Func
			info["clause"] = v.res.O.Clause
			info["solver"] = v.res.Ans.Solver
			info["solver_result"] = v.res.Ans.Result
			info["solver_output"] = truncate(v.res.Ans.Raw, 4000)
			info["per_solver"] = v.res.Ans.PerSolv
			if v.res.Ans.Model != nil {
				info["model"] = v.res.Ans.Model
			}
			// keep the query text for inspection
			if data, err := os.ReadFile(v.res.Ans.File); err == nil {
				info["smt2"] = truncate(string(data), 60000)
			}
		}
		if !opts.NoReplay {
			rr := prog.Replay(opts, v.name, v.res, frs, work)
			if rr != nil {
				info["replay"] = rr
				confirmed = rr.Confirmed
				inputDesc = rr.Input
			}
		}
		info["confirmed_on_real_code"] = confirmed
		// known findings
		isKnown := false
		for _, k := range known {
			if k.Status == "known" && k.Property == opts.Prop && k.Obligation == v.name {
				if prog.KnownInputStillFails(opts, k, v.res, frs, work) {
					isKnown = true
					knownLines = append(knownLines, fmt.Sprintf("KNOWN-FINDING: property=%s %s: %s [input: %s]", opts.Prop, k.Obligation, k.What, truncate(k.Input, 160)))
				}
			}
		}
		data, _ := json.MarshalIndent(info, "", " ")
		os.WriteFile(rf, data, 0o644)
		if isKnown {
			// a known finding is reported, not counted among the obligations claimed as proved
			if v.res != nil && !v.res.O.Probe {
				nProof--
			}
			continue
		}
		nviol++
		line := fmt.Sprintf("VIOLATION property=%s replay=%s", opts.Prop, rf)
		if !confirmed {
			line += " no-failing-input-found"
		}
		say("%s", line)
		say("  obligation: %s (%s) %s", v.name, v.kind, oneLine(v.detail))
		if inputDesc != "" {
			say("  input: %s", inputDesc)
		}
	}
	knownLines = append(knownLines, preKnownLines...)
	sort.Strings(knownLines)
	var lastK string
	for _, l := range knownLines {
		if l != lastK {
			say("%s", l)
		}
		lastK = l
	}
	rep.Known = knownLines
	if nviol > 0 {
		rep.ExitCode = 1
	}

	// evidence
	var fnList []map[string]any
	inl, assumed := map[string]bool{}, map[string]bool{}
	var rejected []string
	for _, fr := range frs {
		h := sha256.Sum256([]byte(fr.Key))
		_ = h
		fnList = append(fnList, map[string]any{"function": fr.Key, "ssa_instructions": fr.NInstr, "paths": fr.Paths,
			"obligations": len(fr.Obligations), "contract_at": fmt.Sprintf("%s:%d", fr.Contract.File, fr.Contract.Line),
			"schema": fr.Contract.Schema, "mode": modeName(fr.Contract), "bounded": fr.Contract.Bounded})
		for _, k := range fr.Inlined {
			inl[k] = true
		}
		for _, k := range fr.UsedAssumed {
			assumed[k] = true
		}
		if fr.Rejected != "" {
			rejected = append(rejected, fr.Key+": "+fr.Rejected)
		}
	}
	var samples []any
	for i, r := range results {
		if i%(len(results)/5+1) == 0 && len(samples) < 6 {
			smt := r.O.Query.SMT(false)
			samples = append(samples, map[string]any{"obligation": r.O.Name, "clause": r.O.Clause, "expect": r.O.Expect, "answer": r.Ans.Result,
				"solver": r.Ans.Solver, "time_s": r.Ans.TimeS, "smt2_sha256": fmt.Sprintf("%x", sha256.Sum256([]byte(smt))), "smt2_head": firstLines(smt, 25)})
		}
	}
	trusted := []string{
		"go/packages + go/types + go/ssa (golang.org/x/tools v0.39.0): lowering of the Go source to SSA is trusted",
		"the VC generator /verif/engine (self-written symbolic executor); guarded by vacuity probes and the must-fail corpus",
		"SMT solvers z3 5.1.0 (z3-new), z3 4.8.12, cvc5 1.0.3",
	}
	keysOf := func(m map[string]bool) []string {
		var s []string
		for k := range m {
			s = append(s, k)
		}
		sort.Strings(s)
		return s
	}
	for _, a := range keysOf(assumed) {
		trusted = append(trusted, "assumed contract (not verified): "+a)
	}
	assumptions := []string{
		"machine integers: Int encoding models every Go operation as the mathematical one followed by an explicit wrap to the type's width; BV encoding is exact",
		"distinct allocation sites never alias; package-level *big.Int values are immutable (their values are read from the real initialisers on every run)",
		"metering hosts (MemoryGauge/ComputationGauge) have no effect other than possibly refusing (env failure kinds are permitted at any metering point)",
		"append() is modelled as always copying (spare-capacity aliasing between slices is not modelled)",
		"termination is not proved except for completely unrolled loops",
		"operator dispatch, argument extraction and the surrounding interpreter/VM are outside the contracts (DESIGN.md section 10)",
		"loop cuts: a store through a slice defined outside the loop havocs that slice's region only; bodies that call inlined or unknown callees havoc all modelled memory except immutable globals and non-escaping locals (such callees are assumed not to re-point pointer fields)",
		"two interface values of unknown content are equal iff their dynamic types and an unconstrained identity attribute agree; the dynamic type of interface-typed package variables, package-level constants and the contents of dispatch tables are read from the real package initialisers on every run",
		"the uninterpreted big-endian value beval(s) of a byte slice is defined as sum(s[i] * 256^(len-1-i)); it is written out for constant lengths and, where a contract says `option bevalbound=N`, for symbolic lengths up to N",
	}
	var hs []string
	for k := range cs.HeapObjs {
		// only for a property that verifies functions of the declaring package
		pkgOf := k[:strings.LastIndex(k, ".")]
		for fk := range done {
			if strings.Contains(fk, pkgOf+".") {
				hs = append(hs, k)
				break
			}
		}
	}
	if len(hs) > 0 {
		sort.Strings(hs)
		assumptions = append(assumptions, "read-only linked heap (heapobj: "+strings.Join(hs, ", ")+"): a pointer to such an object is a reference (0 = nil), its fields are state-independent functions of the reference; functions that store through such pointers, or call a contract that modifies memory, are rejected; pointers to modelled objects (parameters of other struct types) are assumed non-nil and unaliased; symbolic Go maps are non-nil")
		assumptions = append(assumptions, "abstraction functions (absdef): inside the defining package the function means its definition over the object's fields (and the module's contracts are proved with it); clients that hold only a reference use it uninterpreted — sound while the object does not change between the client's calls (enforced by the read-only restriction above)")
	}
	for _, a := range keysOf(inl) {
		assumptions = append(assumptions, "inlined at call sites (body executed, part of each caller's proof): "+a)
	}
	cov := map[string]any{
		"obligations":     nProof,
		"discharged":      nDischarged,
		"checker_cmd":     fmt.Sprintf("/verif/bin/cverif check %s --tier %s", opts.Prop, opts.Tier),
		"trusted_base":    trusted,
		"samples":         samples,
		"functions_under_contract": fnList,
		"by_backend":      byBackend,
		"by_encoding":     byMode,
		"solver_time_s":   round3(solverTime),
		"solver_time_max_s": round3(maxTime),
		"slowest_obligations": slowest,
		"vacuity_probes":  map[string]int{"run": nProbe, "sat_as_expected": nProbeOK},
		"dead_fail_clauses": dead,
		"bounded":         map[string]any{"note": "bounded stand-ins: checked on every run, NOT counted in obligations/discharged", "obligations_checked": nBounded, "passed": nBoundedOK, "functions": boundedFuncs},
		"rejected":        rejected,
		"known_findings":  knownLines,
		"load_s":          round3(loadS),
		"vcgen_s":         round3(genS),
		"baseline_obligations": len(base.Obligations),
		"timeout_s":       opts.Timeout.Seconds(),
	}
	// testing of the trusted base (never counted as proof): the assumed dependency contracts and lemma macros are
	// executed against the real libraries; a failure there means the assumptions of the proofs are wrong
	{
		ncases := 300
		if opts.Tier == "thorough" {
			ncases = 5000
		}
		var sink strings.Builder
		sum, arc := runAxioms(cs, ncases, int64(opts.Seed)+1, &sink)
		delete(sum, "details")
		cov["axiom_conformance"] = sum
		if arc != 0 {
			for _, l := range strings.Split(sink.String(), "\n") {
				if strings.Contains(l, "FAIL") || strings.Contains(l, "NO CONTRACT") {
					say("ERROR: axiom conformance: %s", truncate(l, 400))
				}
			}
			if rep.ExitCode == 0 {
				rep.ExitCode = 2
			}
		}
	}
	ev := map[string]any{
		"property_id": opts.Prop,
		"tier":        opts.Tier,
		"seed":        opts.Seed,
		"level":       "proof",
		"coverage":    cov,
		"assumptions": assumptions,
		"wall_s":      round3(time.Since(t0).Seconds()),
		"violations":  nviol,
	}
	rep.Evidence = ev
	rep.Wall = time.Since(t0).Seconds()
	os.MkdirAll(filepath.Join(VerifDir, "evidence"), 0o755)
	data, _ := json.MarshalIndent(ev, "", " ")
	os.WriteFile(filepath.Join(VerifDir, "evidence", opts.Prop+".json"), data, 0o644)
	bnd := ""
	if nBounded > 0 {
		bnd = fmt.Sprintf(", bounded stand-ins %d/%d (not counted)", nBoundedOK, nBounded)
	}
	say("%s: %d functions, %d/%d obligations discharged, %d/%d probes ok%s, %d violation(s), %d known finding(s), %.1fs (load %.1fs, vcgen %.1fs)",
		opts.Prop, len(frs), nDischarged, nProof, nProbeOK, nProbe, bnd, nviol, len(rep.Known), rep.Wall, loadS, genS)
	return rep
}

func modeName(c *Contract) string {
	if c.Mode == "" {
		return "int"
	}
	return c.Mode
}

func round3(f float64) float64 { return float64(int(f*1000+0.5)) / 1000 }

func truncate(s string, n int) string {
	if len(s) > n {
		return s[:n] + "...[truncated]"
	}
	return s
}

func oneLine(s string) string {
	s = strings.ReplaceAll(s, "\n", " ")
	return truncate(s, 300)
}

func firstLines(s string, n int) []string {
	l := strings.Split(s, "\n")
	if len(l) > n {
		l = l[:n]
	}
	return l
}

// preferSmall: when an obligation is refuted, look for a counterexample small enough to replay.
func preferSmall(o *Obligation, ans SolverAnswer, opts CheckOpts, work string) SolverAnswer {
	if o.Expect != "unsat" || ans.Result != "sat" || len(o.Small) == 0 {
		return ans
	}
	q2 := *o.Query
	q2.Asserts = append(append([]*Term{}, o.Query.Asserts...), o.Small...)
	if len(o.Refine) > 0 {
		q2.Asserts = append(q2.Asserts, o.Refine...)
	}
	to := opts.Timeout
	if to == 0 || to > 20*time.Second {
		to = 20 * time.Second
	}
	a2 := Solve(&q2, o.Name+".small", SolverCfg{Timeout: to, Seed: opts.Seed, WorkDir: work, Order: []string{"z3-new"}})
	if a2.Result == "sat" {
		a2.TimeS += ans.TimeS
		return a2
	}
	return ans
}

var stemRe = regexp.MustCompile(`(\.g\d+)?(\.c\d+)?$`)
