#!/usr/bin/env python3
# check_evidence.py: every committed evidence file validates against the schema and describes a clean run
# (discharged == obligations, no violations). Run before committing: a check run on a seeded tree rewrites the file.
import json, glob, subprocess, sys
bad = 0
try:
    import jsonschema
    schema = json.load(open('/root/.vp/EVIDENCE.schema.json'))
except Exception:
    jsonschema = None
for f in sorted(glob.glob('/verif/evidence/C*.json')):
    e = json.load(open(f)); c = e['coverage']
    msg = []
    if jsonschema:
        try:
            jsonschema.validate(e, schema)
        except Exception as x:
            msg.append('schema: ' + str(x)[:120])
    if c.get('discharged') != c.get('obligations'):
        msg.append('discharged %s != obligations %s' % (c.get('discharged'), c.get('obligations')))
    if c.get('violations'):
        msg.append('violations recorded')
    if e.get('tier') != 'quick':
        msg.append('tier ' + str(e.get('tier')))
    if msg:
        bad += 1
        print(f, '; '.join(msg))
print('evidence files ok' if not bad else '%d evidence file(s) need a clean re-run' % bad)
sys.exit(1 if bad else 0)
