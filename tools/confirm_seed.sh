#!/bin/bash
# confirm_seed.sh <worktree> <seed_out_dir> <demo_pkg_dir> <existing-tests go test args...>
# Confirms a seeded change independently: patch applies, builds, existing tests pass with it,
# demo fails with it and passes without it. Leaves the worktree clean.
set -u
WT=$1; SD=$2; DEMODIR=$3; shift 3
export GOFLAGS=-mod=mod GOPROXY=off
cd $WT || exit 2
git checkout -q -- . ; rm -f $DEMODIR/zz_seed_demo_test.go
git apply --check $SD/patch.diff || { echo "RESULT patch-does-not-apply"; exit 1; }
git apply $SD/patch.diff
echo "--- existing tests with patch: go test -vet=off -count=1 $*"
if go test -vet=off -count=1 "$@" > /tmp/confirm_$$_existing.log 2>&1; then EX=pass; else EX=FAIL; fi
tail -3 /tmp/confirm_$$_existing.log
cp $SD/demo_test.go $DEMODIR/zz_seed_demo_test.go
if go test -vet=off -count=1 ./$DEMODIR/ -run 'Demo|Seed' > /tmp/confirm_$$_demo1.log 2>&1; then D1=pass; else D1=FAIL; fi
git checkout -q -- .
if go test -vet=off -count=1 ./$DEMODIR/ -run 'Demo|Seed' > /tmp/confirm_$$_demo0.log 2>&1; then D0=pass; else D0=FAIL; fi
rm -f $DEMODIR/zz_seed_demo_test.go
echo "RESULT existing=$EX demo_with_patch=$D1 demo_without_patch=$D0"
[ "$EX" = pass ] && [ "$D1" = FAIL ] && [ "$D0" = pass ]
