#!/usr/bin/env python3
# seed_prompt.py <PROP> [extra hint]: prints the prompt given to an independent sub-agent (property text only).
import json,sys
P=sys.argv[1]
prop=None
for l in open('/verif/properties.jsonl'):
    p=json.loads(l)
    if p['id']==P: prop=p
files=", ".join(prop['anchors']['files'])
extra=sys.argv[2] if len(sys.argv)>2 else ""
print(f"""You are helping test a verification effort on the Go repository onflow/cadence (the Cadence smart-contract language: parser, checker, tree-walking interpreter, bytecode VM, stdlib). You work ONLY inside the scratch git worktree /tmp/seed_{P} (a checkout of the repository). Do not touch /repo or /verif or any other directory (you may create files under /tmp/seed_{P} and /tmp/seed_{P}_out). Do not read anything under /verif.

Environment: no network. To build/test use: `cd /tmp/seed_{P} && export GOFLAGS=-mod=mod GOPROXY=off && go test -vet=off -count=1 -run <Regex> ./<pkg>/` (do NOT set GOTOOLCHAIN or GOSUMDB). The interpreter package takes ~1-2 minutes to compile the first time; other machines share the CPU, be patient.

The property to break (the full record, with anchors into the code, is in /tmp/prop_{P}.txt):
"{P}: {prop['title']}. {prop['statement']}"

Relevant code (from the property's anchors): {files}.

Your task: produce THREE different, realistic source changes (each a small edit a developer could plausibly make by mistake during a refactor or an optimisation) to the repository that each BREAK this property while the code still compiles and the EXISTING test suite of the touched packages still passes. Spread the three changes over different mechanisms / functions named in the anchors. Prefer changes that need something specific to manifest: one particular type out of a family, one sign combination, a boundary value, an unusual input, a multi-step sequence of operations, or two cooperating sites that each look fine alone - NOT changes that any ordinary use would expose at once. {extra}

For EACH change i in 1..3 produce in /tmp/seed_{P}_out/<i>/:
  - patch.diff : `git diff` of your change against the worktree's HEAD (only your change to non-test source files)
  - demo_test.go : a small Go test file (test function names must contain "Seed" or "Demo"; state in a comment which directory it must be copied to) that FAILS with your change applied and PASSES without it
  - meta.json : {{"property":"{P}","what":"one-sentence description","needs":"what specific input/condition is needed to manifest","files":[...],"demo_dir":"<directory relative to repo root where demo_test.go goes, e.g. interpreter>","existing_tests":"<space separated ./pkg/ arguments of the existing tests you ran>","ran":"the commands you ran and their outcome"}}
You must actually verify: (a) with the patch applied, the touched packages build and the existing tests of the touched package(s) pass (for the large interpreter package run at least a relevant -run subset plus the full test of smaller touched packages); (b) the demo test fails with the patch and passes without. After finishing each change, revert the worktree (git checkout -- . ; remove the demo test file) before starting the next, so each patch is independent. Leave the worktree clean at the end. Report a short summary of the three changes.""")
