#!/bin/bash
# mk_seed_worktree.sh <PROP>: scratch worktree /tmp/seed_<PROP> of /repo HEAD with the contract files removed
# (committed on a detached HEAD inside the worktree only), plus /tmp/prop_<PROP>.txt with the property text.
P=$1
git -C /repo worktree add --detach /tmp/seed_$P HEAD >/dev/null 2>&1 || { echo "worktree exists?"; }
cd /tmp/seed_$P || exit 1
find . -name 'zz_verif_contracts.go' | xargs git rm -q
git -c user.email=x@x -c user.name=x commit -q -m "scratch: no contract files"
mkdir -p /tmp/seed_${P}_out
python3 - "$P" <<'PY'
import json,sys
for l in open('/verif/properties.jsonl'):
    p=json.loads(l)
    if p['id']==sys.argv[1]:
        open('/tmp/prop_%s.txt'%p['id'],'w').write(json.dumps(p,indent=1))
PY
echo ready /tmp/seed_$P
