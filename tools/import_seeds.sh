#!/bin/bash
# import_seeds.sh <PROP>: copies the sub-agent's outputs /tmp/seed_<PROP>_out/<k> to /verif/seeded/<PROP>-<k> and
# confirms each independently in the scratch worktree /tmp/seed_<PROP> (tools/confirm_seed.sh).
P=$1
for k in 1 2 3 4; do
  src=/tmp/seed_${P}_out/$k
  [ -f $src/patch.diff ] || continue
  n=$k
  while [ -d /verif/seeded/$P-$n ] && ! cmp -s /verif/seeded/$P-$n/patch.diff $src/patch.diff; do n=$((n+1)); done
  dst=/verif/seeded/$P-$n
  mkdir -p $dst && cp $src/patch.diff $src/demo_test.go $src/meta.json $dst/
  demodir=$(python3 -c "import json;print(json.load(open('$dst/meta.json')).get('demo_dir','interpreter'))")
  tests=$(python3 -c "import json;print(json.load(open('$dst/meta.json')).get('existing_tests','./'+json.load(open('$dst/meta.json')).get('demo_dir','interpreter')+'/'))")
  # keep only package arguments
  tests=$(echo $tests | tr ' ' '\n' | grep '^\./' | tr '\n' ' ')
  echo "== $P-$n demo_dir=$demodir tests=$tests"
  out=$(bash /verif/tools/confirm_seed.sh /tmp/seed_$P $dst $demodir $tests 2>&1 | tail -2)
  echo "$out"
  res=$(echo "$out" | grep RESULT)
  python3 - "$dst/meta.json" "$res" <<'PY'
import json,sys
m=json.load(open(sys.argv[1]))
m['confirmed_by_me']='tools/confirm_seed.sh in the scratch worktree: '+sys.argv[2]
m['origin']='independent sub-agent given only the property text and a scratch worktree (contract files removed)'
json.dump(m,open(sys.argv[1],'w'),indent=1)
PY
done
