#!/usr/bin/env python3
"""Applies each seeded change under /verif/seeded to /repo, runs the check of its property, reverts.
Writes /verif/seeded/RESULTS.json. Usage: run_seeded.py [seed-id ...]"""
import json, os, subprocess, sys, glob
os.chdir('/verif')
seeds = sys.argv[1:] or sorted(os.path.basename(d) for d in glob.glob('seeded/C*-*'))
res = {}
try:
    res = json.load(open('seeded/RESULTS.json'))
except Exception:
    pass
for s in seeds:
    d = 'seeded/' + s
    prop = json.load(open(d + '/meta.json'))['property']
    assert subprocess.run(['git', '-C', '/repo', 'status', '--porcelain', '--untracked-files=no'], capture_output=True, text=True).stdout.strip() == '', 'repo not clean'
    r = subprocess.run(['git', '-C', '/repo', 'apply', os.path.abspath(d + '/patch.diff')], capture_output=True, text=True)
    if r.returncode != 0:
        res[s] = {'property': prop, 'error': 'patch does not apply: ' + r.stderr[:300]}
        print(s, 'PATCH FAILED')
        continue
    ev = 'evidence/%s.json' % prop
    saved = open(ev).read() if os.path.exists(ev) else None
    try:
        r = subprocess.run(['bin/cverif', 'check', prop], capture_output=True, text=True, timeout=1800)
        lines = r.stdout.splitlines()
        viol = [l for l in lines if l.startswith('VIOLATION')]
        obl = [l.strip() for l in lines if l.strip().startswith('obligation:')]
        res[s] = {'property': prop, 'exit': r.returncode, 'caught': r.returncode == 1 and len(viol) > 0,
                  'violations': len(viol), 'confirmed_by_replay': sum(1 for v in viol if 'no-failing-input-found' not in v),
                  'obligations': obl[:6], 'summary': lines[-1] if lines else ''}
        print(s, 'caught' if res[s]['caught'] else 'MISSED', '| violations', len(viol), '| replay-confirmed', res[s]['confirmed_by_replay'])
    finally:
        subprocess.run(['git', '-C', '/repo', 'checkout', '--', '.'])
        if saved is not None:
            open(ev, 'w').write(saved)  # the evidence file describes the unchanged tree, not the seeded one
    json.dump(res, open('seeded/RESULTS.json', 'w'), indent=1)
