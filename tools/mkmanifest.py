#!/usr/bin/env python3
"""Regenerates /verif/MANIFEST.json from the table below (claimed properties) and DESIGN.md section 7
(not-applicable reasons). Run after adding/removing a claimed property."""
import json, re, subprocess

CLAIMED = {
 "C11": dict(text="Every +,-,*,/,%,unary minus of the sized integer types under contract is proved, for all operands, to return the exact mathematical result or to fail with Overflow/Underflow/DivisionByZero exactly when the property says so; obligations are generated from the go/ssa form of the current source and discharged by SMT (unbounded).",
             note="Trusted: go/ssa lowering, the VC generator, the SMT solvers, assumed contracts on math/big (Add Sub Mul Quo Rem Neg Cmp SetInt64; tested by the axiom-conformance run), metering hosts have no effect but refusal, package-level *big.Int range constants are immutable (values read from the real initialisers each run). Operator dispatch in interpreter/VM is outside the contracts.",
             technique="deductive: contracts + self-written WP/symbolic-execution VC generator over go/ssa, discharged by z3/cvc5", ref="6 (C11)"),
 "C12": dict(text="Word8..Word256 +,-,*,/,% proved for all operands to return the exact result reduced modulo 2^n, never Overflow/Underflow, DivisionByZero exactly for a zero divisor; includes the representation invariant 0 <= value < 2^n of the math/big-backed words as pre- and postcondition.",
             note="Same trusted base as C11 (math/big Add Sub Mul Div/Quo Rem/Mod And assumed).", technique="deductive: contracts + VC generator over go/ssa, SMT", ref="6 (C12)"),
 "C13": dict(text="saturatingAdd/Subtract/Multiply/Divide of every integer type that sema declares them on are proved, for all operands, to return the exact result clamped to [min,max] and to fail only for a zero divisor.",
             note="Same trusted base as C11. Which (type, operation) pairs exist is taken from sema's declarations as read in this round (DESIGN 6, C13).", technique="deductive: contracts + VC generator over go/ssa, SMT", ref="6 (C13)"),
 "C18": dict(text="PARTIAL (numeric kinds only): Less/LessEqual/Greater/GreaterEqual/Equal of the numeric value types are proved to agree with the order/equality of the mathematical values, which makes them a total order consistent with ==. Strings, characters, type values, paths, containers and hashing are not covered (no contract within reach, DESIGN 6 C18).",
             note="Same trusted base as C11 (math/big Cmp assumed).", technique="deductive: contracts + VC generator over go/ssa, SMT", ref="6 (C18)"),
 "C14": dict(text="&,|,^ and <<,>> of all 20 integer/Word types are under contract. Native widths: &,|,^ proved exactly in the bit-vector encoding, shifts proved against x*2^n truncated / floor(x/2^n) in the Int encoding for every shift amount; negative amounts fail. 128/256-bit types: shifts proved against the same mathematical spec through the two's-complement helpers, &,|,^ proved to be math/big's two's-complement operation with the result in range; Int/UInt: exact shl/shr, Overflow only for amounts not fitting 64 bits. Two genuine defects were found by these obligations, replayed, and repaired (fix: commits); reverting either fix re-raises the violation.",
             note="Trusted: math/big And/Or/Xor/Lsh/Rsh/SetBytes/FillBytes/Bytes semantics (assumed contracts, conformance-tested), the byte helpers values.SignedBigIntToSizedBigEndianBytes / BigEndianBytesToSignedBigInt and interpreter.truncate (assumed contracts on repository code: their bodies loop over bytes/words), modular-arithmetic lemma instances L_modmul/L_mulsign (products treated as uninterpreted in the 128/256-bit left-shift proofs), bounds on the uninterpreted 2^n for wide exponents.",
             technique="deductive: contracts + VC generator over go/ssa (bit-vector and Int encodings), SMT, counterexample refinement + replay", ref="6 (C14)"),
 "C35": dict(text="PARTIAL (encoding half). LEB128: Append{Uint,Int}{32,64}, AppendUint32FixedLength and Read{Uint,Int}{32,64} are proved for all values: the encoder emits exactly the byte-by-byte LEB128 encoding of canonical length after the unchanged prefix, and the decoder returns (v, n, nil) whenever its input starts with the n-byte encoding of v (ghost v); a decoder's precondition is literally the encoder's postcondition, so the round trip with the reported length holds for every integer (loops completely unrolled, unwinding assertion proved). Instruction codec: for every instruction type found in bbq/opcode on the day of the run (82), a generated loop-free harness proves DecodeInstruction(&ip, prefix ++ Encode(i)) == i with ip advanced by exactly the encoded length, for all operand values and every start offset <= 60000; the harnesses execute the real Encode/Decode*/emit*/decode* code inline and are regenerated from the sources on every run. Array operands (4 fields) only as bounded stand-ins (length <= 2), not counted. Compile determinism is a two-run property of the whole compiler and is not covered.",
             note="Bit-vector encoding (exact). append() modelled as copying. ip is a uint16: offsets beyond 60000 are outside the precondition. The harness functions exist only in the verifier's build overlay (tag verif).", technique="deductive: contracts with ghost variables, complete loop unrolling, generated loop-free harnesses over the real codec functions; VC generator over go/ssa (bit-vector encoding), SMT", ref="6 (C35)"),
 "C46": dict(text="rlp.ReadSize and rlp.DecodeString are proved, for every input byte string and start index >= 0, to succeed exactly on the canonical encodings defined by spec functions written from the RLP definition and to return the payload slice and consumed length; rlp.DecodeList is proved free of run-time panics (loop invariant) with its consumed length equal to header plus payload; the Cadence wrappers are proved to fail only with their user error type or a metering error. Every index, slice and make site is a discharged safety obligation. Two genuine crashes were found, replayed and repaired.",
             note="Bit-vector encoding (exact machine arithmetic). Trusted: atree-backed conversions ByteArrayValueToByteSlice/ByteSliceToByteArrayValue/NewArrayValueWithIterator (assumed, the iterator closure is not executed), err.Error(). DecodeList's postcondition does not describe the item contents (slices of slices are tracked by identity only) nor that err==nil iff the payload is a sequence of canonical items (needs a recursive predicate; not expressed).",
             technique="deductive: contracts + loop invariant + VC generator over go/ssa (bit-vector encoding), SMT, small-counterexample search + replay", ref="6 (C46)"),
 "C15": dict(text="PARTIAL: Fix64 and UFix64 (+,-,*,/,%, negate) are proved on the raw scaled integers for all operands: the result is the exact rational result truncated toward zero at scale 8, failure exactly when it is out of range (division by zero fails); % is proved to be a - trunc(a/b)*b failing only when the quotient is out of range, through the Div/Mul/Minus contracts. Fix128/UFix128 arithmetic and multiplyDivide (onflow/fixed-point library calls and their error mapping) are not yet under contract.",
             note="Same trusted base as C11 (math/big Mul Quo Cmp SetInt64/SetUint64 IsUint64 Int64/Uint64 assumed). The 128-bit types delegate to github.com/onflow/fixed-point, which is outside the repository.", technique="deductive: contracts + VC generator over go/ssa, SMT", ref="6 (C15)"),
 "C16": dict(text="All 22 integer conversion entry points (ConvertInt8..ConvertInt256, ConvertUInt8..ConvertUInt256, ConvertWord8..ConvertWord256, ConvertInt, ConvertUInt, incl. the generic ConvertUnsigned/ConvertWord bodies) are proved against interface contracts of the source value (NumberValue.ToInt, BigNumberValue.ToBigInt): result == integer part of the source (fraction truncated toward zero) when representable, else Overflow/Underflow; Word targets: integer part mod 2^n, never failing. The same interface contracts are instantiated on and proved for every implementor found in the loaded program (24 ToInt, 10 ToBigInt, plus Fix128/UFix128 <-> big.Int helpers), so the result holds for every (source, target) pair. One genuine defect found, replayed and repaired (Fix128.ToInt used Euclidean division). Conversions to fixed-point targets and the rounding-argument variants are not yet under contract.",
             note="Same trusted base as C11. Precondition on generic code: every numeric kind that is not a BigNumberValue has an integer part within int64 (shown per kind by the dead failure clause of its ToInt). Constructor-call plumbing (NativeConverterFunction...) is outside the contracts.", technique="deductive: interface contracts instantiated on every implementor + VC generator over go/ssa, SMT", ref="6 (C16)"),
 "C32": dict(text="For Int/UInt and the 128/256-bit integer types, +,-,*,/,%,negate are proved to meter (ghost sum of the amounts accepted by the memory gauge) at least 8 bytes per word of the result, for all operands, on top of per-estimator contracts (estimate >= size of the operation's result). All eleven estimators of common/metering.go are under contract. Three estimator obligations fail on the pinned tree, are confirmed by replay and recorded as known findings (Mod vs Rem result size, right-shift b/8 vs b/64, left-shift int overflow); they change consensus-visible metering, so they are reported, not repaired.",
             note="Over assumed word-length lemmas (L_words_*: |x+y| <= max+1 words, |x*y| <= sum, quotient/remainder bounds, small-magnitude bounds), instantiated explicitly and listed in the contracts; len(x.Bits()) is the uninterpreted words(x); big.Int lengths assumed <= 2^40 words; the quotient estimate is proved only for divisors below 100 words (the recursive-division branch is nonlinear and not decided). Memory gauge assumed to have no effect but accepting/refusing.",
             technique="deductive: contracts with a ghost meter + VC generator over go/ssa, SMT; counterexamples replayed with a recording gauge", ref="6 (C32)"),
}

design = open('/verif/DESIGN.md').read()
rows = dict(re.findall(r'^\| (C\d+) \| (.*) \|$', design, re.M))
ids = [json.loads(l)['id'] for l in open('/verif/properties.jsonl')]
try:
    commits = subprocess.check_output(['git','-C','/repo','log','--format=%H %s']).decode().splitlines()
    hook_commits = [c.split()[0] for c in commits if ' verif hooks' in c or 'verif hook' in c]
except Exception:
    hook_commits = []
checks, na = [], []
for i in ids:
    if i in CLAIMED:
        c = CLAIMED[i]
        checks.append({
            "property_id": i,
            "quick_cmd": f"bin/cverif check {i} --tier quick",
            "thorough_cmd": f"bin/cverif check {i} --tier thorough",
            "evidence_file": f"evidence/{i}.json",
            "replay_cmd_template": "bin/cverif replay {path}",
            "engine": "cverif",
            "level_claimed": {"category": "proof", "text": c["text"], "design_ref": "DESIGN.md section " + c["ref"]},
            "level_note": c["note"],
            "technique": c["technique"],
        })
    elif i in rows:
        na.append({"property_id": i, "reason": rows[i]})
    else:
        na.append({"property_id": i, "reason": "planned (DESIGN.md section 6) but its contracts are not yet written or its baseline obligations do not all discharge yet; not claimed until the check exists"})
m = {"version": 1,
 "setup_cmd": "cd /verif/engine && GOFLAGS=-mod=mod GOPROXY=off go build -o ../bin/cverif ./cmd/cverif && cd /verif && bin/cverif warmup",
 "hooks": {"guard": "verif", "enable": "-tags verif (the hook files zz_verif_contracts.go contain only comments: contracts read by the verifier from source; compiled code is identical with the guard on or off)",
           "baseline_off_cmd": json.load(open('/root/.vp/BASELINE.json'))['cmd'], "source_commits": hook_commits, "add_only": True},
 "engines": [{"name": "cverif", "path": "engine", "serves_properties": sorted(CLAIMED), "kind_free_text": "self-written VC generator (symbolic execution / weakest preconditions) over go/ssa of /repo's working tree; contracts in //go:build verif comment files in /repo plus schemas and assumed stdlib contracts in /verif/contracts; obligations discharged by z3 5.1 (pool), z3 4.8, cvc5 1.0; counterexamples replayed on the real functions through a build overlay"}],
 "checks": checks,
 "notes": "Technique family: contract-based deductive verification of the real code. A check exits 1 with VIOLATION lines when a baseline obligation is refuted (counterexample replayed on the real code) or can no longer be discharged (no-failing-input-found).",
 "not_applicable": na}
json.dump(m, open('/verif/MANIFEST.json', 'w'), indent=1)
print(len(checks), "claimed;", len(na), "not applicable")
