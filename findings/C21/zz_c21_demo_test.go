package interpreter_test

// Demonstration of the C21 defects on real scripts (run against the tree before and after the "fix:" commits).

import (
	"testing"

	"github.com/stretchr/testify/require"

	"github.com/onflow/cadence/activations"
	"github.com/onflow/cadence/common"
	"github.com/onflow/cadence/interpreter"
	"github.com/onflow/cadence/sema"
	"github.com/onflow/cadence/stdlib"
	. "github.com/onflow/cadence/test_utils/sema_utils"
)

func TestVerifC21Demo(t *testing.T) {
	baseValueActivation := sema.NewVariableActivation(sema.BaseValueActivation)
	baseValueActivation.DeclareValue(stdlib.InterpreterInclusiveRangeConstructor)
	baseActivation := activations.NewActivation(nil, interpreter.BaseActivation)
	interpreter.Declare(baseActivation, stdlib.InterpreterInclusiveRangeConstructor)

	run := func(t *testing.T, code string) (interpreter.Value, error) {
		inter, err := parseCheckAndPrepareWithOptions(t, code,
			ParseCheckAndInterpretOptions{
				ParseAndCheckOptions: &ParseAndCheckOptions{
					CheckerConfig: &sema.Config{
						BaseValueActivationHandler: func(common.Location) *sema.VariableActivation {
							return baseValueActivation
						},
					},
				},
				InterpreterConfig: &interpreter.Config{
					BaseActivationHandler: func(common.Location) *interpreter.VariableActivation {
						return baseActivation
					},
				},
			},
		)
		require.NoError(t, err)
		return inter.Invoke("main")
	}

	t.Run("iteration up to the type maximum", func(t *testing.T) {
		v, err := run(t, `
          fun main(): Int {
              var n = 0
              for x in InclusiveRange<Int8>(125, 127) { n = n + 1 }
              return n
          }`)
		require.NoError(t, err)
		require.Equal(t, "3", v.String())
	})
	t.Run("iteration down to the type minimum, non-dividing step", func(t *testing.T) {
		v, err := run(t, `
          fun main(): Int {
              var n = 0
              for x in InclusiveRange<Int8>(-125, -128, step: -2) { n = n + 1 }
              return n
          }`)
		require.NoError(t, err)
		require.Equal(t, "2", v.String())
	})
	t.Run("Word8 iteration up to the maximum terminates", func(t *testing.T) {
		v, err := run(t, `
          fun main(): Int {
              var n = 0
              for x in InclusiveRange<Word8>(250, 255) {
                  n = n + 1
                  if n > 1000 { break }
              }
              return n
          }`)
		require.NoError(t, err)
		require.Equal(t, "6", v.String())
	})
	t.Run("unreachable end is not a member", func(t *testing.T) {
		v, err := run(t, `
          fun main(): Bool {
              return InclusiveRange<Int8>(0, 10, step: 3).contains(10)
          }`)
		require.NoError(t, err)
		require.Equal(t, "false", v.String())
	})
	t.Run("contains on a range wider than half the type", func(t *testing.T) {
		v, err := run(t, `
          fun main(): Bool {
              return InclusiveRange<Int8>(126, -128, step: -1).contains(-127)
          }`)
		require.NoError(t, err)
		require.Equal(t, "true", v.String())
	})
}
